----------------------------- MODULE MC_ExprGen -----------------------------
(***************************************************************************)
(* Enumerates query texts for the evaluator checks (C01, C02, ...).        *)
(*                                                                         *)
(* Mode "tree": every fully parenthesised expression tree with at most     *)
(* MaxBin binary and MaxUn unary operators over the literal lexemes Lits   *)
(* and operator lexemes BinOps / UnOps / Funcs, built by a stack machine   *)
(* (push a literal, apply a unary operator to the top, apply a binary      *)
(* operator to the two topmost) so that TLC's fingerprint set removes      *)
(* duplicates.                                                             *)
(* Mode "flat": every parenthesis-free string l0 op1 l1 ... opk lk,        *)
(* k <= MaxBin, where li is the i-th element of Chain (pairwise distinct   *)
(* values, so that each grouping gives a different result) and each        *)
(* operand may carry a prefix sign.                                        *)
(* Every complete text is printed as <<"CASE", text>>.                     *)
(***************************************************************************)
EXTENDS Integers, Sequences, TLC, Json

CONSTANTS Mode, Lits, BinOps, UnOps, PostOps, Funcs, Funcs2, MaxBin, MaxUn, Chain, Signs

VARIABLES stack, nbin, nun

SP == <<32>>
LP == <<40>>
RP == <<41>>

Init == stack = <<>> /\ nbin = 0 /\ nun = 0

(* ---- tree mode ---- *)
Push(x) == /\ Len(stack) < MaxBin - nbin + 1
           /\ stack' = Append(stack, x) /\ UNCHANGED <<nbin, nun>>
ApplyBin(op) ==
  /\ Len(stack) >= 2 /\ nbin < MaxBin
  /\ LET n == Len(stack) IN
     stack' = Append(SubSeq(stack, 1, n - 2), LP \o stack[n - 1] \o SP \o op \o SP \o stack[n] \o RP)
  /\ nbin' = nbin + 1 /\ UNCHANGED nun
ApplyUn(op) ==
  /\ Len(stack) >= 1 /\ nun < MaxUn
  /\ LET n == Len(stack) IN
     stack' = Append(SubSeq(stack, 1, n - 1), LP \o op \o stack[n] \o RP)
  /\ nun' = nun + 1 /\ UNCHANGED nbin
ApplyPost(op) ==      \* postfix operator (temperature scale, percent): ( x op )
  /\ Len(stack) >= 1 /\ nun < MaxUn
  /\ LET n == Len(stack) IN
     stack' = Append(SubSeq(stack, 1, n - 1), LP \o stack[n] \o op \o RP)
  /\ nun' = nun + 1 /\ UNCHANGED nbin
ApplyFunc(f) ==
  /\ Len(stack) >= 1 /\ nun < MaxUn
  /\ LET n == Len(stack) IN
     stack' = Append(SubSeq(stack, 1, n - 1), f \o LP \o stack[n] \o RP)
  /\ nun' = nun + 1 /\ UNCHANGED nbin

ApplyFunc2(f) ==     \* two-argument function call f(a, b): counts as a binary operator
  /\ Len(stack) >= 2 /\ nbin < MaxBin
  /\ LET n == Len(stack) IN
     stack' = Append(SubSeq(stack, 1, n - 2), f \o LP \o stack[n - 1] \o <<44, 32>> \o stack[n] \o RP)
  /\ nbin' = nbin + 1 /\ UNCHANGED nun

TreeNext == \/ \E x \in Lits : Push(x)
            \/ \E f \in Funcs2 : ApplyFunc2(f)
            \/ \E op \in BinOps : ApplyBin(op)
            \/ \E op \in UnOps : ApplyUn(op)
            \/ \E op \in PostOps : ApplyPost(op)
            \/ \E f \in Funcs : ApplyFunc(f)
TreeDone == Len(stack) = 1 /\ (nbin + nun) >= 1

(* ---- flat mode: stack holds the single text built so far ---- *)
FlatStart == /\ stack = <<>>
             /\ \E sg \in Signs : stack' = <<sg \o Chain[1]>>
             /\ UNCHANGED <<nbin, nun>>
FlatExtend(op) ==
  /\ Len(stack) = 1 /\ nbin < MaxBin /\ nbin + 2 <= Len(Chain)
  /\ \E sg \in Signs : stack' = <<stack[1] \o SP \o op \o SP \o sg \o Chain[nbin + 2]>>
  /\ nbin' = nbin + 1 /\ UNCHANGED nun
FlatNext == FlatStart \/ \E op \in BinOps : FlatExtend(op)
FlatDone == Len(stack) = 1 /\ nbin >= 1

(* ---- chars mode: every string over the one-character texts Lits up to length MaxBin ---- *)
CharsNext == /\ (IF stack = <<>> THEN TRUE ELSE Len(stack[1]) < MaxBin)
             /\ \E c \in Lits : stack' = <<(IF stack = <<>> THEN <<>> ELSE stack[1]) \o c>>
             /\ UNCHANGED <<nbin, nun>>
CharsDone == Len(stack) = 1

(* ---- soup mode: every sequence of at most MaxBin lexemes from Lits, separated by blanks; nbin counts ---- *)
SoupNext == /\ nbin < MaxBin
            /\ \E c \in Lits : stack' = <<(IF stack = <<>> THEN c ELSE stack[1] \o SP \o c)>>
            /\ nbin' = nbin + 1 /\ UNCHANGED nun
SoupDone == Len(stack) = 1

Next == CASE Mode = "tree" -> TreeNext [] Mode = "flat" -> FlatNext [] Mode = "chars" -> CharsNext
          [] Mode = "soup" -> SoupNext
Spec == Init /\ [][Next]_<<stack, nbin, nun>>

Emit == ((Mode = "tree" /\ TreeDone) \/ (Mode = "flat" /\ FlatDone) \/ (Mode = "chars" /\ CharsDone)
         \/ (Mode = "soup" /\ SoupDone)) => PrintT(<<"CASE", ToJson(stack[1])>>)   \* ToJson: one line per case (TLC wraps long tuples)
=============================================================================
