-------------------------------- MODULE Query --------------------------------
(***************************************************************************)
(* Replies to whole queries (core/src/runtime/eval.rs eval_query): plain   *)
(* expressions, conversions to an expression (C03), to a temperature       *)
(* scale (C10), to a unit list (C09), and the automatic duration           *)
(* breakdown of time values.  QueryValue(q, env) is what the property      *)
(* statements determine; QAgree compares it with an observed reply.        *)
(***************************************************************************)
EXTENDS Eval, TLC

(* ---- environment from a registry dump (JSON, harness/src/dump.rs) ---- *)
DimOfJson(arr) == DFromJson(arr)
ValOfJson(j) == IF j.t = "num" THEN VNum(j.v, DimOfJson(j.d)) ELSE VFloat(DimOfJson(j.d), FALSE)

RECURSIVE BuildUnits(_, _)
BuildUnits(arr, i) == IF i > Len(arr) THEN [u \in {} |-> VNone]
                      ELSE (arr[i].name :> ValOfJson(arr[i].val)) @@ BuildUnits(arr, i + 1)

\* physical quantities as names of dimensionalities (value 1): the vocabulary of conformance-error suggestions
RECURSIVE BuildQuant(_, _)
BuildQuant(arr, i) == IF i > Len(arr) THEN [u \in {} |-> VNone]
                      ELSE (arr[i].name :> VNum(QOne, DimOfJson(arr[i].dims))) @@ BuildQuant(arr, i + 1)
QuantEnvFromJson(j) == [EmptyEnv EXCEPT !.units = BuildQuant(j.quantities, 1), !.closed = FALSE]

EnvFromJson(j, closed, textbook) ==
  [base |-> {j.base[i] : i \in DOMAIN j.base},
   units |-> BuildUnits(j.units, 1),
   prefixes |-> [i \in DOMAIN j.prefixes |-> [name |-> j.prefixes[i].name, v |-> j.prefixes[i].v]],
   ans |-> VNone,
   subst |-> {j.substnames[i] : i \in DOMAIN j.substnames},
   closed |-> closed,
   textbook |-> textbook,
   hasq |-> "quantities" \in DOMAIN j,
   qenv |-> IF "quantities" \in DOMAIN j THEN QuantEnvFromJson(j) ELSE EmptyEnv]

-----------------------------------------------------------------------------
(* conversion targets the property speaks of: units, products, quotients, integer powers,
   constant factors, prefix/plural names, inline `name = expr`; anything else: silent *)
RECURSIVE TargetOK(_), TargetSeqOK(_, _)
TargetSeqOK(es, i) == i > Len(es) \/ (TargetOK(es[i]) /\ TargetSeqOK(es, i + 1))
TargetOK(e) ==
  CASE e.k \in {"unit", "quote", "const"} -> TRUE
    [] e.k = "mul" -> TargetSeqOK(e.es, 1)
    [] e.k = "bin" -> IF e.op = "frac" THEN TargetOK(e.l) /\ TargetOK(e.r)
                      ELSE IF e.op = "pow" THEN TargetOK(e.l) /\ e.r.k \in {"const", "un"}
                      ELSE IF e.op = "equals" THEN e.l.k = "unit" /\ TargetOK(e.r)
                      ELSE FALSE
    [] e.k = "un" -> e.op \in {"neg", "pos"} /\ TargetOK(e.e)
    [] OTHER -> FALSE

\* a temperature scale operator anywhere inside an expression (C10: refused inside compound conversion targets)
RECURSIVE HasDegree(_), HasDegreeSeq(_, _)
HasDegreeSeq(es, i) == i <= Len(es) /\ (HasDegree(es[i]) \/ HasDegreeSeq(es, i + 1))
HasDegree(e) ==
  CASE e.k = "un" -> e.op \notin {"neg", "pos"} \/ HasDegree(e.e)
    [] e.k = "bin" -> HasDegree(e.l) \/ HasDegree(e.r)
    [] e.k = "mul" -> HasDegreeSeq(e.es, 1)
    [] e.k = "call" -> HasDegreeSeq(e.args, 1)
    [] e.k = "of" -> HasDegree(e.e)
    [] OTHER -> FALSE

\* successive truncated division (eval.rs to_list): parts for units us[1..n]
RECURSIVE ListParts(_, _, _, _)
ListParts(v, us, i, acc) ==
  IF i = Len(us) THEN Append(acc, QDiv(v, us[i]))
  ELSE LET q == QFromZ(QTrunc(QDiv(v, us[i])))
       IN ListParts(QSub(v, QMul(q, us[i])), us, i + 1, Append(acc, q))

\* the law of property C09 for observed parts ps
RECURSIVE PartialSum(_, _, _)
PartialSum(ps, us, i) == IF i = 0 THEN QZero ELSE QAdd(PartialSum(ps, us, i - 1), QMul(ps[i], us[i]))
ListLaw(v, us, ps) ==
  /\ Len(ps) = Len(us)
  /\ QEq(PartialSum(ps, us, Len(us)), v)
  /\ \A i \in 1..(Len(us) - 1) : QIsInt(ps[i])
  \* every contribution part_i * u_i shares v's sign (for positive units: every part shares v's sign)
  /\ \A i \in 1..Len(us) : QSign(ps[i]) = 0 \/ QSign(ps[i]) * QSign(us[i]) = QSign(v)
  /\ \A i \in 1..(Len(us) - 1) : QLt(QAbs(QSub(v, PartialSum(ps, us, i))), QAbs(us[i]))

RECURSIVE LookupAll(_, _, _, _)
LookupAll(env, names, i, acc) ==
  IF i > Len(names) THEN acc ELSE LookupAll(env, names, i + 1, Append(acc, CtxLookup(env, names[i])))

DurationNames == <<W_year, W_week, W_day, W_hour, W_minute, W_second>>
SecondDim == DBase(W_s)

VConv(x) == [t |-> "conv", x |-> x]
VList(v, us) == [t |-> "list", v |-> v, us |-> us]
VConfErr(recip) == [t |-> "err", c |-> "conformance", recip |-> recip, hasdims |-> FALSE]
VConfErrD(dtop, dbot) == [t |-> "err", c |-> "conformance", recip |-> DIsEmpty(DMul(dtop, dbot)), hasdims |-> TRUE,
                          dtop |-> dtop, dbot |-> dbot]

ConvertList(top, names, env) ==
  LET us == LookupAll(env, names, 1, <<>>) IN
  IF \E i \in DOMAIN us : us[i].t = "none" THEN (IF env.closed THEN VErr("notfound") ELSE VUnknown)
  ELSE IF \E i \in DOMAIN us : us[i].t # "num" THEN VUnknown
  ELSE IF \E i \in DOMAIN us : ~DEq(us[i].d, us[1].d) THEN VErr("generic")
  ELSE IF ~DEq(top.d, us[1].d) THEN VConfErr(DIsEmpty(DMul(top.d, us[1].d)))
  ELSE IF top.t # "num" THEN VUnknown
  ELSE IF \E i \in DOMAIN us : QIsZero(us[i].v) THEN VUnknown
  ELSE VList(top.v, [i \in DOMAIN us |-> us[i].v])

(* A power whose exponent is a float-valued expression.  The specification does not determine float values   *)
(* (Ev answers "unknown"), but GIVEN the value x the code computed for the exponent on its own - observed by  *)
(* evaluating the exponent expression alone; a float is an exact binary rational - the dimensional rule is    *)
(* the one for a rational exponent of that value: whole -> the integer power, 1/n -> the root if exact,       *)
(* anything else -> refused for a base that carries units.                                                     *)
PowWithObservedExponent(e, x, env) ==
  IF e.k # "bin" \/ e.op # "pow" THEN VUnknown
  ELSE LET a == Ev(e.l, env) IN
       IF a.t = "err" THEN a
       ELSE LET b == Ev(e.r, env) IN
            IF b.t = "err" THEN b
            ELSE IF b.t # "float" \/ ~IsNumLike(a) THEN VUnknown
            ELSE NumPow(a, VNum(x, b.d))

QueryValue(q, env) ==
  CASE q.k = "qerr" -> VErr("generic")
    [] q.k = "expr" ->
         IF q.e.k = "unit" /\ q.e.name \notin {W_ans, W_ANS, W_us, W_now} THEN VUnknown   \* definition lookups: elsewhere
         ELSE Ev(q.e, env)
    [] q.k = "convert" ->
         LET c == q.conv IN
         CASE c.c = "none" ->
                IF q.base = 0 /\ q.digits.m = "default" THEN Ev(q.e, env) ELSE VUnknown      \* numeral display: C05
           [] c.c = "expr" ->
                LET top == Ev(q.e, env) IN
                IF top.t = "err" THEN top
                ELSE IF HasDegree(c.e) THEN VErr("generic")      \* a scale operator inside a compound target: refused
                ELSE LET bot == Ev(c.e, env) IN
                     IF bot.t = "err" THEN bot
                     ELSE IF ~TargetOK(c.e) THEN VUnknown
                     ELSE IF top.t # "num" \/ bot.t # "num" THEN VUnknown
                     ELSE IF ~DEq(top.d, bot.d) THEN VConfErrD(top.d, bot.d)
                     ELSE IF QIsZero(bot.v) THEN VErr("generic")
                     ELSE VConv(QDiv(top.v, bot.v))
           [] c.c = "degree" ->
                LET top == Ev(q.e, env) IN
                IF top.t = "err" THEN top
                ELSE IF q.base # 0 THEN VErr("generic")
                ELSE IF top.t \in {"date", "subst"} THEN VErr("generic")
                ELSE IF top.t # "num" THEN VUnknown
                ELSE LET scale == DegreeScale(env, c.deg)
                         zero == DegreeZero(env, c.deg)
                     IN IF scale.t # "num" \/ zero.t # "num" THEN VUnknown
                        ELSE IF ~DEq(top.d, scale.d) THEN VConfErr(DIsEmpty(DMul(top.d, scale.d)))
                        ELSE VConv(QDiv(QSub(top.v, zero.v), scale.v))
           [] c.c = "list" ->
                LET top == Ev(q.e, env) IN
                IF top.t = "err" THEN top
                ELSE IF q.base # 0 \/ q.digits.m # "default" THEN VErr("generic")
                ELSE IF top.t \in {"date", "subst"} THEN VErr("generic")
                ELSE IF ~IsNumLike(top) THEN VUnknown
                ELSE ConvertList(top, c.names, env)
           [] OTHER -> VUnknown          \* offsets, time zones: DateTime.tla
    [] OTHER -> VUnknown                 \* factorize, units for, search: other modules

-----------------------------------------------------------------------------
(* observations: obs.t in {"num", "float", "err", "conversion", "unitlist", "date", "subst", "def", ...} *)
RawOf(parts) == parts.raw

RECURSIVE PartsValues(_, _, _)
PartsValues(list, i, acc) == IF i > Len(list) THEN acc ELSE PartsValues(list, i + 1, Append(acc, list[i].raw.v))

AllRational(list) == \A i \in DOMAIN list : list[i].raw.t = "num"

HasRecip(o) == \E i \in DOMAIN o.suggestions : o.suggestions[i] = "Reciprocal conversion, invert one side"

\* "otherwise naming the missing factor": some suggestion says to multiply (divide) the left side by a factor X whose
\* dimensionality is d_target / d_value (its reciprocal), and likewise for the right side; X is written with quantity
\* names, quoted base units, powers and one `/`, and is read by the specification's own parser.
DescDims(txt, qenv) == LET v == Ev(ParseExprText(txt), qenv) IN IF v.t = "num" THEN [ok |-> TRUE, d |-> v.d] ELSE [ok |-> FALSE, d |-> DEmpty]
Names1(txt, pfx, want, qenv) ==
  IsPrefixSeq(pfx, txt) /\ LET dd == DescDims(DropSeq(txt, Len(pfx)), qenv) IN dd.ok /\ DEq(dd.d, want)
NamesFactor(o, dtop, dbot, qenv) ==
  LET needL == DDiv(dbot, dtop)        \* multiply the left side by this
      needR == DDiv(dtop, dbot)        \* multiply the right side by this
      S == o.suggestions_cp
  IN /\ \E i \in DOMAIN S : Names1(S[i], P_mul_left, needL, qenv) \/ Names1(S[i], P_div_left, DRecip(needL), qenv)
     /\ \E i \in DOMAIN S : Names1(S[i], P_mul_right, needR, qenv) \/ Names1(S[i], P_div_right, DRecip(needR), qenv)
FactorSilent(o, qenv) ==    \* a suggestion the specification cannot read (a name outside the quantity table): not judged
  \E i \in DOMAIN o.suggestions_cp :
     \E pfx \in {P_mul_left, P_div_left, P_mul_right, P_div_right} :
        IsPrefixSeq(pfx, o.suggestions_cp[i]) /\ ~DescDims(DropSeq(o.suggestions_cp[i], Len(pfx)), qenv).ok

\* the automatic year/week/day/hour/minute/second breakdown of a time value (law of C09)
DurationOK(val, o, env) ==
  IF val.t # "num" \/ ~DEq(val.d, SecondDim) \/ o.t # "num" THEN TRUE
  ELSE IF o.kind # "duration" THEN TRUE
  ELSE LET us == LookupAll(env, DurationNames, 1, <<>>) IN
       IF \E i \in DOMAIN us : us[i].t # "num" THEN TRUE
       ELSE /\ AllRational(o.breakdown)
            /\ ListLaw(val.v, [i \in DOMAIN us |-> us[i].v], PartsValues(o.breakdown, 1, <<>>))

QAgree(spec, o, env) ==
  CASE spec.t = "conv" ->
         /\ o.t = "conversion"
         /\ o.parts.raw.t = "num"
         /\ QEq(spec.x, o.parts.raw.v)
         /\ DIsEmpty(DimOfJson(o.parts.raw.d))
    [] spec.t = "list" ->
         /\ o.t = "unitlist"
         /\ AllRational(o.list)
         /\ ListLaw(spec.v, spec.us, PartsValues(o.list, 1, <<>>))
    [] spec.t = "err" /\ spec.c = "conformance" ->
         /\ o.t = "err" /\ o.c = "conformance"
         /\ (spec.recip <=> HasRecip(o))
         /\ (spec.hasdims /\ ~spec.recip /\ env.hasq /\ ~FactorSilent(o, env.qenv) => NamesFactor(o, spec.dtop, spec.dbot, env.qenv))
    [] OTHER -> Agree(spec, o) /\ DurationOK(spec, o, env)

\* the same law for FLOAT values and float-valued units (the property's exact clauses cannot hold for floats; what a float
\* list still owes: every part but the last is a whole number, the contributions share v's sign, the sum is v and each
\* remainder is smaller than the unit just used - up to a relative 2^-40).  v, us, ps: exact rationals of the observed floats.
FloatListLaw(v, us, ps) ==
  LET eps == QDiv(QAbs(v), QFromZ(Z(FALSE, NPow2(40))))
  IN
  /\ Len(ps) = Len(us)
  /\ \A i \in 1..(Len(us) - 1) : QIsInt(ps[i])
  /\ QLe(QAbs(QSub(PartialSum(ps, us, Len(us)), v)), eps)
  /\ \A i \in 1..Len(us) : QSign(ps[i]) = 0 \/ QSign(ps[i]) * QSign(us[i]) = QSign(v) \/ QLe(QAbs(QMul(ps[i], us[i])), eps)
  /\ \A i \in 1..Len(us) : QLe(QAbs(QSub(v, PartialSum(ps, us, i))), QAdd(QAbs(us[i]), eps))

\* drift-level: the function form of the unit list (the code's own algorithm)
ListDrift(spec, o) ==
  spec.t = "list" /\ o.t = "unitlist" /\ AllRational(o.list) /\
  LET ps == ListParts(spec.v, spec.us, 1, <<>>)
      os == PartsValues(o.list, 1, <<>>)
  IN ~(Len(ps) = Len(os) /\ \A i \in DOMAIN ps : QEq(ps[i], os[i]))
=============================================================================
