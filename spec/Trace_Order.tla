----------------------------- MODULE Trace_Order -----------------------------
(***************************************************************************)
(* C12 as the property states it: the database produced by loading a       *)
(* uniquely named set of definitions is a function of the set - not of the *)
(* order of the list, nor of the way it was split into files.  (This is    *)
(* Loader.OrderIndependent with the resolver abstracted away.)             *)
(*                                                                         *)
(* Every line of the trace is a group of loads of one set, in some orders  *)
(* and splits, that produced the database with this digest:                *)
(*   [set |-> name, loads |-> n >= 1, digest |-> <<...>>]                  *)
(* The abstract machine remembers the database of every set it has seen;   *)
(* a load of a known set is possible only if it yields that database.      *)
(* A crashed load has no digest ("crash" lines match no action).           *)
(* Two more kinds of lines state "forward references resolve" (Reload,     *)
(* Copies below).                                                          *)
(***************************************************************************)
EXTENDS TraceLib

VARIABLES l, known

Init == l = 1 /\ known = [x \in {} |-> <<>>]

Load ==
  /\ l <= NRec
  /\ LET e == Rec[l] IN
       /\ e.ev = "loads"
       /\ e.loads >= 1
       /\ IF e.set \in DOMAIN known
          THEN known[e.set] = e.digest /\ UNCHANGED known
          ELSE known' = [x \in (DOMAIN known) \cup {e.set} |-> IF x = e.set THEN e.digest ELSE known[x]]
  /\ l' = l + 1

\* "forward references resolve": of the definitions a load of the set refused, every one is refused again when it
\* is loaded once more, alone, on top of the finished database - where every reference is a backward reference
\*   [ev |-> "reload", set, refused |-> n, still |-> m, amb |-> a reference of the set has two readings]
\* (Loader.ForwardRefsResolve with the resolver abstracted away; sets with an ambiguous reference are outside its scope)
Reload ==
  /\ l <= NRec
  /\ LET e == Rec[l] IN e.ev = "reload" /\ (e.amb \/ e.still = e.refused)
  /\ l' = l + 1 /\ UNCHANGED known

\* the set extended by a copy of each of its definitions under a fresh name: every copy means what its original means
\*   [ev |-> "copies", set, copies |-> n, agree |-> m]
Copies ==
  /\ l <= NRec
  /\ LET e == Rec[l] IN e.ev = "copies" /\ e.agree = e.copies
  /\ l' = l + 1 /\ UNCHANGED known

Next == Load \/ Reload \/ Copies
Spec == Init /\ [][Next]_<<l, known>>
Reached == Mark(l)
=============================================================================
