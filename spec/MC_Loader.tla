------------------------------ MODULE MC_Loader ------------------------------
(***************************************************************************)
(* Bounded configurations of Loader.tla over a universe of definitions     *)
(* engineered for prefix / plural collisions (k-, m-, in, min, ks, s ...): *)
(* every uniquely named subset up to MaxDefs, in every order, split into   *)
(* 1..MaxFiles files.  The generator invariants print                      *)
(*   <<"POOL", json>>            the universe, once                        *)
(*   <<"CASE", files>>           every initial state (pool indices)        *)
(*   <<"DB", json>>              the database the model computes, per set  *)
(***************************************************************************)
EXTENDS Loader, Json

CONSTANTS MaxDefs, MaxFiles, PoolSel    \* PoolSel: which pool entries take part (a set of indices)

c_a == 97  c_b == 98  c_c == 99  c_d == 100 c_e == 101 c_i == 105 c_k == 107 c_l == 108 c_m == 109
c_n == 110 c_o == 111 c_p == 112 c_q == 113 c_r == 114 c_s == 115 c_t == 116 c_u == 117 c_w == 119
c_x == 120 c_y == 121 c_z == 122

Body(c, ids) == [c |-> c, ids |-> ids]
Blank == [name |-> <<>>, kind |-> "unit", long |-> <<>>, islong |-> FALSE, body |-> Body(1, <<>>), props |-> <<>>,
          doc |-> "", cat |-> <<>>, disp |-> "", sym |-> <<>>]
BaseU(n, long) == [Blank EXCEPT !.name = n, !.kind = "base", !.long = long]
UnitD(n, c, ids) == [Blank EXCEPT !.name = n, !.kind = "unit", !.body = Body(c, ids)]
PrefD(n, islong, c, ids) == [Blank EXCEPT !.name = n, !.kind = "prefix", !.islong = islong, !.body = Body(c, ids)]
QuantD(n, ids) == [Blank EXCEPT !.name = n, !.kind = "quantity", !.body = Body(1, ids)]
CatD(n, disp) == [Blank EXCEPT !.name = n, !.kind = "category", !.disp = disp]
Prop(n, on, oc, oids, inn, ic, iids) == [name |-> n, oname |-> on, out |-> Body(oc, oids), iname |-> inn, inp |-> Body(ic, iids)]
SubstD(n, props) == [Blank EXCEPT !.name = n, !.kind = "subst", !.props = props]
SubstS(n, sym, props) == [SubstD(n, props) EXCEPT !.sym = sym]     \* `!symbol n sym` next to the substance
\* a `!symbol n sym` line on its own: not a definition - the parser attaches the symbol to the substance named n
\* of the SAME file (gnu_units.rs:316, 548), see ParseFile
SymDir(n, sym) == [Blank EXCEPT !.name = n, !.kind = "symdir", !.sym = sym]
Doc(d, t) == [d EXCEPT !.doc = t]
Cat(d, c) == [d EXCEPT !.cat = c]

n_s == <<c_s>>
n_m == <<c_m>>
n_k == <<c_k>>
n_in == <<c_i, c_n>>
n_min == <<c_m, c_i, c_n>>
n_ks == <<c_k, c_s>>
n_ms == <<c_m, c_s>>
n_kin == <<c_k, c_i, c_n>>
n_meter == <<c_m, c_e, c_t, c_e, c_r>>
n_c1 == <<c_c, 49>>
c_g == 103 c_h == 104
n_kg == <<c_k, c_g>>
n_mol == <<c_m, c_o, c_l>>
n_kilogram == <<c_k, c_i, c_l, c_o, c_g, c_r, c_a, c_m>>
n_hy == <<c_h, c_y>>
n_ox == <<c_o, c_x>>
n_mass == <<c_m, c_a, c_s, c_s>>
n_amount == <<c_a, c_m, c_o, c_u, c_n, c_t>>
S_H == <<72>>
S_O == <<79>>
\* molar_mass  mass c kg / amount 1000 mol
MolarMass(c) == Prop(N_molar_mass, n_mass, c, <<n_kg>>, n_amount, 1000, <<n_mol>>)

\* The universe: every item is the parsed form of one self-contained piece of definitions text (a definition
\* inside a category parses to the category entry followed by the definition).
C1 == CatD(n_c1, "Cat One")
Pool == <<
  (* 1 *) <<BaseU(n_s, <<>>)>>,
  (* 2 *) <<C1, Cat(Doc(BaseU(n_m, n_meter), "the metre"), n_c1)>>,
  (* 3 *) <<PrefD(n_k, FALSE, 1000, <<>>)>>,
  (* 4 *) <<Doc(PrefD(n_m, FALSE, 3, <<>>), "milli")>>,
  (* 5 *) <<C1, Cat(Doc(UnitD(n_in, 2, <<n_m>>), "an inch"), n_c1)>>,
  (* 6 *) <<UnitD(n_min, 60, <<n_s>>)>>,
  (* 7 *) <<UnitD(<<c_x>>, 1, <<n_ks>>)>>,
  (* 8 *) <<UnitD(<<c_y>>, 11, <<n_min>>)>>,
  (* 9 *) <<UnitD(<<c_z>>, 13, <<n_ms, n_kin>>)>>,
  (* 10 *) <<QuantD(<<c_l, c_e, c_n>>, <<n_m>>)>>,
  (* 11 *) <<SubstD(<<c_s, c_u, c_b>>, <<Prop(<<c_p, 49>>, <<c_o, 49>>, 2, <<n_m>>, <<c_i, 49>>, 3, <<n_s>>),
                                        Prop(<<c_p, 50>>, <<c_p, 50>>, 5, <<<<c_p, 49>>>>, <<c_c, 50>>, 1, <<>>)>>)>>,
  (* 12 *) <<C1>>,
  (* 13 *) <<UnitD(n_ks, 5, <<n_s>>)>>,
  (* 14 *) <<BaseU(n_k, <<>>)>>,
  (* 15 *) <<UnitD(<<c_w>>, 1, <<n_meter, n_s>>)>>,
  (* 16 *) <<QuantD(<<c_a, c_r>>, <<<<c_l, c_e, c_n>>, <<c_l, c_e, c_n>>>>)>>,
  (* 17 *) <<PrefD(<<c_k, c_i>>, TRUE, 1024, <<>>)>>,
  (* 18 *) <<PrefD(<<c_q>>, FALSE, 1, <<n_k>>)>>,
  (* 19 *) <<UnitD(<<c_t>>, 7, <<<<c_l, c_e, c_n>>>>)>>,
  (* 20 *) <<SubstD(<<c_z, c_e, c_r, c_o>>, <<Prop(<<c_p, 51>>, <<c_p, 51>>, 0, <<n_m>>, <<c_c, 51>>, 1, <<>>)>>)>>,
  (* 21 *) <<UnitD(<<c_a>>, 2, <<n_meter>>)>>,
  (* 22 *) <<UnitD(<<c_b>>, 1, <<<<c_b>>>>)>>,
  \* 23-27: a reference that reads two ways as prefix + unit (`dam` = d + am or da + m): the reading the loader
  \* chooses must not depend on the order of the definitions
  (* 23 *) <<PrefD(<<c_d>>, FALSE, 7, <<>>)>>,
  (* 24 *) <<PrefD(<<c_d, c_a>>, FALSE, 10, <<>>)>>,
  (* 25 *) <<UnitD(<<c_a, c_m>>, 5, <<n_s>>)>>,
  (* 26 *) <<UnitD(<<c_r>>, 3, <<<<c_d, c_a, c_m>>>>)>>,
  (* 27 *) <<UnitD(<<c_u>>, 2, <<<<c_r>>, <<c_d, c_a, c_m>>>>)>>,
  \* 28-36: references that are neither names nor prefix + name: the long name of a base unit, the symbol of a
  \* substance, a chemical formula - from definitions whose own names sort before (aq, ab, ac) and after (zz) the
  \* definitions they lead to; and a `!symbol` line apart from its substance
  (* 28 *) <<BaseU(n_kg, n_kilogram), BaseU(n_mol, <<>>)>>,
  (* 29 *) <<SubstS(n_hy, S_H, <<MolarMass(1)>>)>>,
  (* 30 *) <<SubstS(n_ox, S_O, <<MolarMass(16)>>)>>,
  (* 31 *) <<UnitD(<<c_a, c_q>>, 1, <<<<72, 50, 79>>>>)>>,          \* aq H2O
  (* 32 *) <<UnitD(<<c_a, c_b>>, 1, <<S_H>>)>>,                      \* ab H
  (* 33 *) <<UnitD(<<c_z, c_z>>, 1, <<<<79, 50>>>>)>>,               \* zz O2
  (* 34 *) <<UnitD(<<c_a, c_c>>, 3, <<n_kilogram>>)>>,               \* ac 3 kilogram
  (* 35 *) <<SymDir(n_ox, S_O)>>,                                    \* !symbol ox O
  (* 36 *) <<SubstD(n_ox, <<MolarMass(16)>>)>>                       \* ox without its symbol
>>

RECURSIVE SubsetsUpTo(_, _)
SubsetsUpTo(D, k) ==
  IF k = 0 \/ D = {} THEN {{}}
  ELSE LET d == CHOOSE x \in D : TRUE
           rest == D \ {d}
       IN SubsetsUpTo(rest, k) \cup {X \cup {d} : X \in SubsetsUpTo(rest, k - 1)}

RECURSIVE PermSeqs(_)
PermSeqs(D) == IF D = {} THEN {<<>>} ELSE UNION {{<<d>> \o p : p \in PermSeqs(D \ {d})} : d \in D}

\* all ways of cutting a sequence into 1..MaxFiles non-empty files
Splits(q) ==
  LET n == Len(q) IN
  {<<q>>}
  \cup (IF MaxFiles >= 2 THEN {<<SubSeq(q, 1, i), SubSeq(q, i + 1, n)>> : i \in 1..(n - 1)} ELSE {})
  \cup (IF MaxFiles >= 3 /\ n <= 4 THEN UNION {{<<SubSeq(q, 1, i), SubSeq(q, i + 1, j), SubSeq(q, j + 1, n)>> :
                                          j \in (i + 1)..(n - 1)} : i \in 1..(n - 2)}
        ELSE {})

DefsOfItems(I) == UNION {Range(Pool[i]) : i \in I}
RealDefs(I) == {d \in DefsOfItems(I) : d.kind # "symdir"}
\* every symbol is given once: by one substance, or by one `!symbol` line
SymbolOnce(I) == \A d, e \in {x \in DefsOfItems(I) : x.sym # <<>>} : d # e => d.sym # e.sym
ItemSets == {I \in SubsetsUpTo(PoolSel, MaxDefs) : I # {} /\ UniquelyNamed(RealDefs(I)) /\ SymbolOnce(I)}
\* a file of items -> the list its text parses to: the `!symbol` lines of a file name substances of that file
RECURSIVE RawFile(_)
RawFile(f) == IF f = <<>> THEN <<>> ELSE Pool[Head(f)] \o RawFile(Tail(f))
ParseFile(f) ==
  LET raw == RawFile(f)
      dirs == {raw[i] : i \in {j \in DOMAIN raw : raw[j].kind = "symdir"}}
      SymOf(d) == IF d.kind = "subst" /\ \E x \in dirs : x.name = d.name
                  THEN (CHOOSE x \in dirs : x.name = d.name).sym ELSE d.sym
  IN SelectSeq([i \in DOMAIN raw |-> [raw[i] EXCEPT !.sym = SymOf(raw[i])]], LAMBDA d : d.kind # "symdir")
MCInitCase(l, f) ==
  \E I \in ItemSets : \E p \in PermSeqs(I) : \E lbl \in Splits(p) :
     /\ l = lbl
     /\ f = [i \in DOMAIN lbl |-> ParseFile(lbl[i])]
MCBaseNames == UNION {{d.name : d \in {x \in Range(Pool[i]) : x.kind = "base"}} : i \in DOMAIN Pool}

ASSUME PrintT(<<"POOL", ToJson(Pool)>>)

\* ---- what the generator prints
EmitCase == phase = "files" => PrintT(<<"CASE", label>>)

DimJson(d) == {[u |-> b, e |-> d[b]] : b \in {x \in BaseNames : d[x] # 0}}
NumJson(v) == [n |-> v.n, q |-> v.q, d |-> DimJson(v.d)]
MapJson(f, V(_)) == {[name |-> k, v |-> V(f[k])] : k \in DOMAIN f}
IdF(x) == x
BodyJson(b) == b
PropsJson(ps) == {[name |-> k, inp |-> NumJson(ps[k].inp), iname |-> ps[k].iname, out |-> NumJson(ps[k].out),
                   oname |-> ps[k].oname] : k \in DOMAIN ps}
DbJson ==
  [set |-> defset,
   base |-> db.base,
   longs |-> MapJson(db.longs, IdF),
   units |-> MapJson(db.units, NumJson),
   defs |-> MapJson(db.defs, BodyJson),
   prefixes |-> [i \in DOMAIN db.prefixes |-> [name |-> db.prefixes[i].name, v |-> NumJson(db.prefixes[i].v)]],
   quants |-> {[name |-> db.quants[k], d |-> DimJson(k)] : k \in DOMAIN db.quants},
   subst |-> MapJson(db.subst, PropsJson),
   symbols |-> MapJson(db.symbols, IdF),
   docs |-> MapJson(db.docs, IdF),
   cats |-> MapJson(db.cats, IdF),
   catnames |-> MapJson(db.catnames, IdF),
   errors |-> errors,
   sorted |-> sorted,
   silent |-> db.silent,
   ambiguous |-> Ambiguous]
EmitDb == Done => PrintT(<<"DB", ToJson(DbJson)>>)

\* the design before commits 3701c96 / 479bb55 (sanity configurations: ForwardRefsResolve must fail there)
NoLink == FALSE

\* FixedPoint is asserted where every identifier has one reading; elsewhere a failure is only counted
FixedPointScoped == Ambiguous \/ FixedPoint
CountAmbiguous == (Done /\ Ambiguous /\ ~FixedPoint) => PrintT(<<"AMBIG", Cardinality(defset)>>)
\* the same scope for ForwardRefsResolve: where a reference has two readings (`dam` = d- am or da- m) the resolver
\* follows one of them and the registry may need the other (the property statement does not say which reading a
\* name has); such sets are counted, not asserted
ForwardRefsScoped == Ambiguous \/ ForwardRefsResolve
CountAmbiguousFwd == (Done /\ Ambiguous /\ ~ForwardRefsResolve) => PrintT(<<"AMBIGFWD", Cardinality(defset)>>)
=============================================================================
