SPECIFICATION Spec
CONSTANTS
  InitCase <- MCInitCase
  BaseNames <- MCBaseNames
  MaxDefs = 5
  MaxFiles = 2
  PoolSel = {1,2,23,24,25,26,27}
INVARIANTS TypeOK MeasureNat TempIsStack EmittedOnce TemporariesEmpty TopoOrder CycleReported OrderIndependent FixedPointScoped EmitCase EmitDb CountAmbiguous
PROPERTIES Progress
CHECK_DEADLOCK FALSE
