SPECIFICATION Spec
CONSTANTS
  InitCase <- MCInitCase
  BaseNames <- MCBaseNames
  MaxDefs = 5
  MaxFiles = 2
  PoolSel = {1,2,23,24,25,26,27}
INVARIANTS TypeOK MeasureNat TempIsStack EmittedOnce TemporariesEmpty TopoOrder TopoOrderStrict CycleReported OrderIndependent ForwardRefsScoped FixedPointScoped EmitCase EmitDb CountAmbiguous CountAmbiguousFwd
PROPERTIES Progress
CHECK_DEADLOCK FALSE
