SPECIFICATION Spec
CONSTANTS
  NewLen = 3
  ErrLen = 1
  Cuts <- MCCuts
  Codes <- MCCodes
  ChunkSizes <- MCOne
  NetMayFail = FALSE
  MayLeaveLitter = FALSE
  CloseDelimited = TRUE
  WriteInPlace = TRUE
  PersistBeforeStatusCheck = FALSE
  TruncatedIsSuccess = FALSE
  SkipValidation = FALSE
  FixedTempName = FALSE
  NoStaleFallback = FALSE
  AbortOnRefreshError = FALSE
INVARIANTS FailKeeps
CHECK_DEADLOCK FALSE
