------------------------------- MODULE BigNum -------------------------------
(***************************************************************************)
(* Unbounded-precision arithmetic written in TLA+ (TLC's integers are      *)
(* 32 bit).  This is the oracle behind every exact value in the            *)
(* specification of Rink; it is cross-checked against TLC's native         *)
(* integers at every run (MC_BigNum).                                      *)
(*                                                                         *)
(*   natural  N : sequence of limbs 0..4095, little endian, no leading     *)
(*                (most significant) zero limb; zero is <<>>               *)
(*   integer  Z : [neg : BOOLEAN, mag : N], zero has neg = FALSE           *)
(*   rational Q : [n : Z, d : N] with d # <<>>; NOT reduced; equality and  *)
(*                order are by cross-multiplication                        *)
(***************************************************************************)
EXTENDS Integers, Sequences

B == 4096

-----------------------------------------------------------------------------
(* naturals *)

RECURSIVE NNorm(_)
NNorm(a) == IF a = <<>> THEN a
            ELSE IF a[Len(a)] = 0 THEN NNorm(SubSeq(a, 1, Len(a) - 1)) ELSE a

RECURSIVE NFromInt(_)
NFromInt(k) == IF k = 0 THEN <<>> ELSE <<k % B>> \o NFromInt(k \div B)

RECURSIVE NToIntFrom(_, _)
NToIntFrom(a, i) == IF i > Len(a) THEN 0 ELSE a[i] + B * NToIntFrom(a, i + 1)
NToInt(a) == NToIntFrom(a, 1)          \* only for values known to be < 2^31
NFitsInt(a) == Len(a) <= 2 \/ (Len(a) = 3 /\ a[3] < 128)

NZero == <<>>
NOne == <<1>>
NIsZero(a) == a = <<>>

RECURSIVE NCmpFrom(_, _, _)
NCmpFrom(a, b, i) == IF i = 0 THEN 0
                     ELSE IF a[i] < b[i] THEN -1
                     ELSE IF a[i] > b[i] THEN 1
                     ELSE NCmpFrom(a, b, i - 1)
NCmp(a, b) == IF Len(a) < Len(b) THEN -1
              ELSE IF Len(a) > Len(b) THEN 1
              ELSE NCmpFrom(a, b, Len(a))
NLe(a, b) == NCmp(a, b) <= 0
NLt(a, b) == NCmp(a, b) < 0

Limb(a, i) == IF i <= Len(a) THEN a[i] ELSE 0

RECURSIVE NAddC(_, _, _, _, _)
NAddC(a, b, i, c, acc) ==
  IF i > Len(a) /\ i > Len(b)
  THEN IF c = 0 THEN acc ELSE Append(acc, c)
  ELSE LET s == Limb(a, i) + Limb(b, i) + c
       IN NAddC(a, b, i + 1, s \div B, Append(acc, s % B))
NAdd(a, b) == IF a = <<>> THEN b ELSE IF b = <<>> THEN a ELSE NAddC(a, b, 1, 0, <<>>)

\* a - b for a >= b
RECURSIVE NSubC(_, _, _, _, _)
NSubC(a, b, i, c, acc) ==
  IF i > Len(a) THEN acc
  ELSE LET s == a[i] - Limb(b, i) - c
       IN IF s < 0 THEN NSubC(a, b, i + 1, 1, Append(acc, s + B))
                   ELSE NSubC(a, b, i + 1, 0, Append(acc, s))
NSub(a, b) == IF b = <<>> THEN a ELSE NNorm(NSubC(a, b, 1, 0, <<>>))

\* a * k for 0 <= k < B
RECURSIVE NMulSmallC(_, _, _, _, _)
NMulSmallC(a, k, i, c, acc) ==
  IF i > Len(a) THEN (IF c = 0 THEN acc ELSE Append(acc, c))
  ELSE LET s == a[i] * k + c
       IN NMulSmallC(a, k, i + 1, s \div B, Append(acc, s % B))
NMulSmall(a, k) == IF k = 0 \/ a = <<>> THEN <<>> ELSE IF k = 1 THEN a ELSE NMulSmallC(a, k, 1, 0, <<>>)

\* a + k for 0 <= k < B
NAddSmall(a, k) == IF k = 0 THEN a ELSE NAdd(a, <<k>>)

\* a * B^k
NShift(a, k) == IF a = <<>> \/ k = 0 THEN a ELSE [i \in 1..k |-> 0] \o a

RECURSIVE NMulRows(_, _, _, _)
NMulRows(a, b, j, acc) ==
  IF j > Len(b) THEN acc
  ELSE NMulRows(a, b, j + 1,
                IF b[j] = 0 THEN acc ELSE NAdd(acc, NShift(NMulSmall(a, b[j]), j - 1)))
NMul(a, b) == IF a = <<>> \/ b = <<>> THEN <<>>
              ELSE IF Len(a) >= Len(b) THEN NMulRows(a, b, 1, <<>>) ELSE NMulRows(b, a, 1, <<>>)

\* a div k, a mod k for 0 < k < B : <<quotient, remainder>>
RECURSIVE NDivSmallC(_, _, _, _, _)
NDivSmallC(a, k, i, r, acc) ==
  IF i = 0 THEN <<NNorm(acc), r>>
  ELSE LET cur == r * B + a[i]
       IN NDivSmallC(a, k, i - 1, cur % k, <<cur \div k>> \o acc)
NDivSmall(a, k) == NDivSmallC(a, k, Len(a), 0, <<>>)

\* long division (Knuth's algorithm D): the divisor is scaled so that its top limb is >= B/2; the
\* quotient limb estimated from the two top limbs of the running remainder is then at most 2 too large.
RECURSIVE QFix(_, _, _)
QFix(b, cur, q) == IF NLe(NMulSmall(b, q), cur) THEN q ELSE QFix(b, cur, q - 1)

QEstimate(b, cur) ==
  LET m == Len(b)
      n == Len(cur)
  IN IF n < m THEN 0
     ELSE IF n = m THEN (IF NLt(cur, b) THEN 0 ELSE 1)      \* top limb of b >= B/2: quotient is 0 or 1
     ELSE LET e == (cur[n] * B + cur[n - 1]) \div b[m]
          IN QFix(b, cur, IF e > B - 1 THEN B - 1 ELSE e)

RECURSIVE NDivModC(_, _, _, _, _)
NDivModC(a, b, i, r, acc) ==
  IF i = 0 THEN <<NNorm(acc), r>>
  ELSE LET cur == NNorm(<<a[i]>> \o r)
           q == QEstimate(b, cur)
       IN NDivModC(a, b, i - 1, IF q = 0 THEN cur ELSE NSub(cur, NMulSmall(b, q)), <<q>> \o acc)
NDivMod(a, b) == IF NLt(a, b) THEN <<<<>>, a>>
                 ELSE IF Len(b) = 1 THEN LET qr == NDivSmall(a, b[1]) IN <<qr[1], NFromInt(qr[2])>>
                 ELSE LET d == B \div (b[Len(b)] + 1)
                          qr == NDivModC(NMulSmall(a, d), NMulSmall(b, d), Len(NMulSmall(a, d)), <<>>, <<>>)
                      IN <<qr[1], NDivSmall(qr[2], d)[1]>>
NDiv(a, b) == NDivMod(a, b)[1]
NMod(a, b) == NDivMod(a, b)[2]

RECURSIVE NGcd(_, _)
NGcd(a, b) == IF b = <<>> THEN a ELSE NGcd(b, NMod(a, b))

\* a ^ k, k a native non-negative integer
RECURSIVE NPow(_, _)
NPow(a, k) == IF k = 0 THEN <<1>>
              ELSE IF k = 1 THEN a
              ELSE LET h == NPow(a, k \div 2)
                       s == NMul(h, h)
                   IN IF k % 2 = 0 THEN s ELSE NMul(s, a)

\* 2 ^ k
NPow2(k) == NShift(<<NToInt(NPow(<<2>>, k % 12))>>, k \div 12)

\* a * k + c for 0 <= k, c < B (one pass)
NMulAddSmall(a, k, c) == IF a = <<>> THEN (IF c = 0 THEN <<>> ELSE <<c>>) ELSE NMulSmallC(a, k, 1, c, <<>>)

\* digits (each 0..base-1, most significant first) -> natural; base <= 36.
\* Decimal digits are taken three at a time (1000 < B); bases 2, 8, 16 fill limbs directly.
RECURSIVE NFromDigitsC(_, _, _, _)
NFromDigitsC(ds, base, i, acc) ==
  IF i > Len(ds) THEN acc
  ELSE IF base = 10 /\ i + 2 <= Len(ds)
       THEN NFromDigitsC(ds, base, i + 3, NMulAddSmall(acc, 1000, ds[i] * 100 + ds[i + 1] * 10 + ds[i + 2]))
  ELSE NFromDigitsC(ds, base, i + 1, NMulAddSmall(acc, base, ds[i]))

\* bits per digit for the power-of-two bases
RECURSIVE LimbFromDigits(_, _, _, _, _)
LimbFromDigits(ds, hi, lo, w, acc) ==      \* value of ds[lo..hi] (most significant first), w bits per digit
  IF lo > hi THEN acc ELSE LimbFromDigits(ds, hi, lo + 1, w, acc * (2 ^ w) + ds[lo])
NFromPow2Digits(ds, w) ==
  LET per == 12 \div w                       \* digits per limb
      n == Len(ds)
      nl == (n + per - 1) \div per
  IN NNorm([j \in 1..nl |-> LET hi == n - (j - 1) * per
                                lo == IF hi - per + 1 < 1 THEN 1 ELSE hi - per + 1
                            IN LimbFromDigits(ds, hi, lo, w, 0)])
NFromDigits(ds, base) ==
  CASE base = 16 -> NFromPow2Digits(ds, 4)
    [] base = 8 -> NFromPow2Digits(ds, 3)
    [] base = 2 -> NFromPow2Digits(ds, 1)
    [] OTHER -> NFromDigitsC(ds, base, 1, <<>>)

NIsEven(a) == a = <<>> \/ a[1] % 2 = 0

(* bitwise operators on limbs and naturals *)
RECURSIVE BitOp(_, _, _, _)
\* op: 1 = and, 2 = or, 3 = xor, 4 = and-not ; n = number of bits left
BitOp(op, x, y, n) ==
  IF n = 0 THEN 0
  ELSE LET bx == x % 2
           by == y % 2
           r == CASE op = 1 -> bx * by
                  [] op = 2 -> IF bx + by > 0 THEN 1 ELSE 0
                  [] op = 3 -> (bx + by) % 2
                  [] op = 4 -> bx * (1 - by)
       IN r + 2 * BitOp(op, x \div 2, y \div 2, n - 1)

NBitOp(op, a, b) ==
  LET n == IF Len(a) >= Len(b) THEN Len(a) ELSE Len(b)
  IN NNorm([i \in 1..n |-> BitOp(op, Limb(a, i), Limb(b, i), 12)])
NAnd(a, b) == NBitOp(1, a, b)
NOr(a, b) == NBitOp(2, a, b)
NXor(a, b) == NBitOp(3, a, b)
NAndNot(a, b) == NBitOp(4, a, b)

-----------------------------------------------------------------------------
(* integers *)

Z(neg, mag) == [neg |-> neg /\ mag # <<>>, mag |-> mag]
ZZero == [neg |-> FALSE, mag |-> <<>>]
ZOne == [neg |-> FALSE, mag |-> <<1>>]
ZFromInt(k) == IF k < 0 THEN Z(TRUE, NFromInt(-k)) ELSE Z(FALSE, NFromInt(k))
ZToInt(a) == IF a.neg THEN -NToInt(a.mag) ELSE NToInt(a.mag)
ZFitsInt(a) == NFitsInt(a.mag)
ZIsZero(a) == a.mag = <<>>
ZSign(a) == IF a.mag = <<>> THEN 0 ELSE IF a.neg THEN -1 ELSE 1
ZNeg(a) == Z(~a.neg, a.mag)
ZAbs(a) == Z(FALSE, a.mag)
ZAdd(a, b) ==
  IF a.neg = b.neg THEN Z(a.neg, NAdd(a.mag, b.mag))
  ELSE LET c == NCmp(a.mag, b.mag)
       IN IF c = 0 THEN ZZero
          ELSE IF c > 0 THEN Z(a.neg, NSub(a.mag, b.mag))
          ELSE Z(b.neg, NSub(b.mag, a.mag))
ZSub(a, b) == ZAdd(a, ZNeg(b))
ZMul(a, b) == Z(a.neg # b.neg, NMul(a.mag, b.mag))
ZCmp(a, b) ==
  IF a.neg /\ ~b.neg THEN -1
  ELSE IF ~a.neg /\ b.neg THEN 1
  ELSE IF a.neg THEN NCmp(b.mag, a.mag) ELSE NCmp(a.mag, b.mag)
ZEq(a, b) == a.neg = b.neg /\ a.mag = b.mag
\* truncated division (quotient rounded toward zero, remainder has the sign of the dividend), b # 0
ZDivTrunc(a, b) == Z(a.neg # b.neg, NDiv(a.mag, b.mag))
ZRemTrunc(a, b) == Z(a.neg, NMod(a.mag, b.mag))
ZPow(a, k) == Z(a.neg /\ k % 2 = 1, NPow(a.mag, k))

\* two's complement (infinitely sign-extended) bit operators
ZNot(a) == ZSub(ZNeg(a), ZOne)             \* ~a = -a - 1
NotMag(a) == ZNot(a).mag                    \* for negative a: the natural ~a
ZAnd(a, b) ==
  CASE ~a.neg /\ ~b.neg -> Z(FALSE, NAnd(a.mag, b.mag))
    [] a.neg /\ ~b.neg  -> Z(FALSE, NAndNot(b.mag, NotMag(a)))
    [] ~a.neg /\ b.neg  -> Z(FALSE, NAndNot(a.mag, NotMag(b)))
    [] OTHER            -> ZNot(Z(FALSE, NOr(NotMag(a), NotMag(b))))
ZOr(a, b) ==
  CASE ~a.neg /\ ~b.neg -> Z(FALSE, NOr(a.mag, b.mag))
    [] a.neg /\ ~b.neg  -> ZNot(Z(FALSE, NAndNot(NotMag(a), b.mag)))
    [] ~a.neg /\ b.neg  -> ZNot(Z(FALSE, NAndNot(NotMag(b), a.mag)))
    [] OTHER            -> ZNot(Z(FALSE, NAnd(NotMag(a), NotMag(b))))
ZXor(a, b) ==
  CASE ~a.neg /\ ~b.neg -> Z(FALSE, NXor(a.mag, b.mag))
    [] a.neg /\ ~b.neg  -> ZNot(Z(FALSE, NXor(NotMag(a), b.mag)))
    [] ~a.neg /\ b.neg  -> ZNot(Z(FALSE, NXor(a.mag, NotMag(b))))
    [] OTHER            -> Z(FALSE, NXor(NotMag(a), NotMag(b)))

-----------------------------------------------------------------------------
(* rationals (not reduced) *)

Q(n, d) == [n |-> n, d |-> d]
QFromZ(z) == [n |-> z, d |-> <<1>>]
QFromInt(k) == QFromZ(ZFromInt(k))
QFrac(a, b) == IF b < 0 THEN Q(ZFromInt(-a), NFromInt(-b)) ELSE Q(ZFromInt(a), NFromInt(b))
QZero == QFromInt(0)
QOne == QFromInt(1)
QIsZero(x) == ZIsZero(x.n)
QSign(x) == ZSign(x.n)
QNeg(x) == Q(ZNeg(x.n), x.d)
QAbs(x) == Q(ZAbs(x.n), x.d)
QAdd(x, y) == IF x.d = y.d THEN Q(ZAdd(x.n, y.n), x.d)
              ELSE Q(ZAdd(ZMul(x.n, Z(FALSE, y.d)), ZMul(y.n, Z(FALSE, x.d))), NMul(x.d, y.d))
QSub(x, y) == QAdd(x, QNeg(y))
QMul(x, y) == Q(ZMul(x.n, y.n), NMul(x.d, y.d))
QInv(x) == Q(Z(x.n.neg, x.d), x.n.mag)             \* x # 0
QDiv(x, y) == QMul(x, QInv(y))                       \* y # 0
QCmp(x, y) == ZCmp(ZMul(x.n, Z(FALSE, y.d)), ZMul(y.n, Z(FALSE, x.d)))
QEq(x, y) == QCmp(x, y) = 0
QLt(x, y) == QCmp(x, y) < 0
QLe(x, y) == QCmp(x, y) <= 0
QIsInt(x) == x.d = <<1>> \/ NIsZero(NMod(x.n.mag, x.d))
QToZ(x) == IF x.d = <<1>> THEN x.n ELSE Z(x.n.neg, NDiv(x.n.mag, x.d))   \* exact when QIsInt(x); else truncation
QTrunc(x) == QToZ(x)
QPow(x, k) == IF k >= 0 THEN Q(ZPow(x.n, k), NPow(x.d, k))
              ELSE QInv(Q(ZPow(x.n, -k), NPow(x.d, -k)))              \* x # 0 for k < 0
\* truncated remainder x - y * trunc(x / y), y # 0
QRem(x, y) == LET a == ZMul(x.n, Z(FALSE, y.d))
                  b == ZMul(y.n, Z(FALSE, x.d))
              IN Q(ZRemTrunc(a, b), NMul(x.d, y.d))
QReduce(x) == LET g == NGcd(x.n.mag, x.d) IN Q(Z(x.n.neg, NDiv(x.n.mag, g)), NDiv(x.d, g))
QPow2(k) == IF k >= 0 THEN Q(Z(FALSE, NPow2(k)), <<1>>) ELSE Q(ZOne, NPow2(-k))
=============================================================================
