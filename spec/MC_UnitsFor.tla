----------------------------- MODULE MC_UnitsFor -----------------------------
(***************************************************************************)
(* C17, bounded model: (1) the laws of UnitsFor.tla on a small registry    *)
(* (every listing of up to MaxList (category, unit) pairs against every    *)
(* small dimensionality: UnitsForOK is the conjunction of its four         *)
(* diagnostics; the admitted base-unit entry never widens any other        *)
(* dimensionality; product arithmetic) as assumptions, and (2) a generator *)
(* of exponent vectors in [-MaxExp..MaxExp]^3 over the base units kg, m, s *)
(* with three spellings of each as an expression: a fraction               *)
(* (`kg m^2 / s^3`), a product with signed powers (`kg m^2 s^-3`) and the  *)
(* same product in reverse order.  One line per vector is printed.         *)
(***************************************************************************)
EXTENDS UnitsFor, TLC, Json

CONSTANTS MaxExp, MaxList

VARIABLE v          \* exponent vector, 1..3 -> -MaxExp..MaxExp

BaseTxt == <<<<107, 103>>, <<109>>, <<115>>>>      \* kg m s
SP == <<32>>
Digit(k) == <<48 + k>>

Init == v = [i \in 1..3 |-> -MaxExp]
Bump(i) == v[i] < MaxExp /\ v' = [v EXCEPT ![i] = @ + 1]
Next == \E i \in 1..3 : Bump(i)
Spec == Init /\ [][Next]_v

RECURSIVE Join(_, _)
Join(parts, i) == IF i > Len(parts) THEN <<>>
                  ELSE IF i = Len(parts) THEN parts[i] ELSE parts[i] \o SP \o Join(parts, i + 1)

PosFactor(i, k) == IF k = 1 THEN BaseTxt[i] ELSE BaseTxt[i] \o <<94>> \o Digit(k)
SignedFactor(i, k) == IF k > 0 THEN PosFactor(i, k) ELSE BaseTxt[i] \o <<94, 45>> \o Digit(-k)

RECURSIVE Pick(_, _, _)      \* the factors i..3 whose exponent satisfies the sign, as texts
Pick(vec, sign, i) ==
  IF i > 3 THEN <<>>
  ELSE IF sign * vec[i] > 0 THEN <<PosFactor(i, sign * vec[i])>> \o Pick(vec, sign, i + 1)
  ELSE Pick(vec, sign, i + 1)

RECURSIVE Signed(_, _, _)
Signed(vec, i, step) ==
  IF i > 3 \/ i < 1 THEN <<>>
  ELSE IF vec[i] # 0 THEN <<SignedFactor(i, vec[i])>> \o Signed(vec, i + step, step)
  ELSE Signed(vec, i + step, step)

One == <<49>>
FracText(vec) ==
  LET num == Pick(vec, 1, 1)
      den == Pick(vec, -1, 1)
      n == IF num = <<>> THEN One ELSE Join(num, 1)
  IN IF den = <<>> THEN n ELSE n \o <<32, 47, 32>> \o Join(den, 1)
PowText(vec) == IF Signed(vec, 1, 1) = <<>> THEN One ELSE Join(Signed(vec, 1, 1), 1)
RevText(vec) == IF Signed(vec, 3, -1) = <<>> THEN One ELSE Join(Signed(vec, 3, -1), 1)

Emit == PrintT(<<"CASE", ToJson([e |-> v, texts |-> <<FracText(v), PowText(v), RevText(v)>>])>>)

-----------------------------------------------------------------------------
(* the laws on a small registry *)
M == <<109>>
S == <<115>>
C1 == <<67, 49>>
C2 == <<67, 50>>
N_meter == <<109, 101, 116, 101, 114>>
N_ft == <<102, 116>>
N_foot == <<102, 111, 111, 116>>
N_yd == <<121, 100>>
N_min == <<109, 105, 110>>
N_are == <<97, 114, 101>>

SmallReg ==
  [units |-> {[name |-> N_meter, d |-> DBase(M), alias |-> TRUE, cat |-> NoCat],
              [name |-> N_ft, d |-> DBase(M), alias |-> FALSE, cat |-> C2],
              [name |-> N_foot, d |-> DBase(M), alias |-> TRUE, cat |-> C2],
              [name |-> N_yd, d |-> DBase(M), alias |-> FALSE, cat |-> NoCat],
              [name |-> N_min, d |-> DBase(S), alias |-> FALSE, cat |-> C2],
              [name |-> N_are, d |-> DPow(DBase(M), 2), alias |-> FALSE, cat |-> C1]},
   base |-> {[name |-> M, long |-> N_meter, cat |-> C1, longcat |-> NoCat],
             [name |-> S, long |-> <<>>, cat |-> NoCat, longcat |-> NoCat]},
   quant |-> (<<1>> :> DBase(M)) @@ (<<2>> :> DBase(S)) @@ (<<3>> :> DPow(DBase(M), 2))
             @@ (<<4>> :> DDiv(DBase(M), DBase(S)))]

SmallDims == {DBase(M), DBase(S), DPow(DBase(M), 2), DPow(DBase(M), -1), DEmpty, DMul(DBase(M), DBase(S))}
Pairs == {C1, C2, NoCat} \X {N_meter, M, S, N_ft, N_foot, N_yd, N_min, N_are}
Lists == UNION {[1..k -> Pairs] : k \in 0..MaxList}

ASSUME LawIsItsDiagnostics ==
  \A d \in SmallDims, listed \in Lists :
    UnitsForOK(SmallReg, d, listed) <=> /\ EachOnce(listed) /\ NoneMissing(SmallReg, d, listed)
                                        /\ NoneForeign(SmallReg, d, listed) /\ OwnCategory(SmallReg, d, listed)

\* the base unit's own name is listed for that base unit to the first power, and only there (F13)
ASSUME BaseOnlyForFirstPower ==
  /\ Optional(SmallReg, DPow(DBase(M), 2)) = {} /\ Optional(SmallReg, DPow(DBase(M), -1)) = {}
  /\ Optional(SmallReg, DEmpty) = {} /\ Optional(SmallReg, DMul(DBase(M), DBase(S))) = {}
  /\ Names(Optional(SmallReg, DBase(M))) = {M, N_meter} /\ Names(Optional(SmallReg, DBase(S))) = {S}
  /\ ~UnitsForOK(SmallReg, DPow(DBase(M), 2), <<<<C1, N_are>>, <<NoCat, N_meter>>>>)
  /\ UnitsForOK(SmallReg, DPow(DBase(M), 2), <<<<C1, N_are>>>>)
  /\ UnitsForOK(SmallReg, DBase(M), <<<<C2, N_ft>>, <<NoCat, N_yd>>, <<NoCat, N_meter>>>>)
  /\ ~UnitsForOK(SmallReg, DBase(M), <<<<NoCat, N_yd>>, <<C2, N_ft>>>>)                \* the base unit itself missing
  /\ UnitsForOK(SmallReg, DBase(M), <<<<NoCat, N_yd>>, <<C2, N_ft>>, <<NoCat, M>>>>)   \* under its short name
  /\ ~UnitsForOK(SmallReg, DBase(M), <<<<C2, N_ft>>>>)                                  \* yd missing
  /\ ~UnitsForOK(SmallReg, DBase(M), <<<<C2, N_ft>>, <<C2, N_yd>>>>)                   \* wrong category
  /\ ~UnitsForOK(SmallReg, DBase(M), <<<<C2, N_ft>>, <<NoCat, N_yd>>, <<C2, N_foot>>>>) \* an alias

ASSUME ProductLaws ==
  /\ ProductSound(SmallReg, DBase(M), <<[u |-> <<4>>, e |-> 1], [u |-> <<2>>, e |-> 1]>>)       \* velocity time
  /\ ProductSound(SmallReg, DPow(DBase(M), 2), <<[u |-> <<1>>, e |-> 2]>>)                      \* length^2
  /\ ~ProductSound(SmallReg, DPow(DBase(M), 2), <<[u |-> <<1>>, e |-> 1], [u |-> <<2>>, e |-> 1]>>)
  /\ ~ProductSound(SmallReg, DBase(M), <<[u |-> <<9>>, e |-> 1]>>)                              \* unknown quantity
  /\ ProductSound(SmallReg, DEmpty, <<>>)
  /\ FactorizeOK(SmallReg, DPow(DBase(M), 2), <<<<[u |-> <<3>>, e |-> 1]>>, <<[u |-> <<1>>, e |-> 2]>>>>)
  /\ ~FactorizeOK(SmallReg, DBase(M), <<<<[u |-> <<4>>, e |-> 1], [u |-> <<2>>, e |-> 1]>>,
                                        <<[u |-> <<2>>, e |-> 1], [u |-> <<4>>, e |-> 1]>>>>)   \* the same product twice
=============================================================================
