--------------------------- MODULE MC_LoaderGraph ---------------------------
(***************************************************************************)
(* Loader.tla on every dependency graph over N named definitions: node i   *)
(* mentions an arbitrary set of at most MaxOut nodes (self loops, 2-cycles *)
(* and longer cycles included); the kinds of the nodes (unit, prefix,      *)
(* quantity, substance, base unit) come from a set of kind vectors, so     *)
(* that cycles run through every namespace and through substance           *)
(* properties.  Properties: CycleReported, TopoOrder, termination.         *)
(* The generator invariant prints one GRAPH line per finished load.        *)
(***************************************************************************)
EXTENDS Loader, Json

CONSTANTS N, MaxOut, KindVecs

Body(c, ids) == [c |-> c, ids |-> ids]
Blank == [name |-> <<>>, kind |-> "unit", long |-> <<>>, islong |-> FALSE, body |-> Body(1, <<>>), props |-> <<>>,
          doc |-> "", cat |-> <<>>, disp |-> "", sym |-> <<>>]
NodeName(i) == <<96 + i>>          \* a, b, c, d, e

RECURSIVE SetToSeq(_)
SetToSeq(X) == IF X = {} THEN <<>> ELSE LET m == CHOOSE x \in X : \A y \in X : x <= y IN <<m>> \o SetToSeq(X \ {m})
Names(M) == LET q == SetToSeq(M) IN [i \in DOMAIN q |-> NodeName(q[i])]

NodeDef(i, kind, M) ==
  CASE kind = "unit" -> [Blank EXCEPT !.name = NodeName(i), !.kind = "unit", !.body = Body(2, Names(M))]
    [] kind = "prefix" -> [Blank EXCEPT !.name = NodeName(i), !.kind = "prefix",
                                         !.body = IF M = {} THEN Body(3, <<>>) ELSE Body(1, Names(M))]
    [] kind = "quantity" -> [Blank EXCEPT !.name = NodeName(i), !.kind = "quantity", !.body = Body(1, Names(M))]
    [] kind = "subst" -> [Blank EXCEPT !.name = NodeName(i), !.kind = "subst",
                                        !.props = <<[name |-> <<112, 49>>, oname |-> <<111, 49>>, out |-> Body(2, Names(M)),
                                                     iname |-> <<105, 49>>, inp |-> Body(3, <<>>)]>>]
    [] kind = "base" -> [Blank EXCEPT !.name = NodeName(i), !.kind = "base"]

RECURSIVE SubsetsUpTo(_, _)
SubsetsUpTo(D, k) ==
  IF k = 0 \/ D = {} THEN {{}}
  ELSE LET d == CHOOSE x \in D : TRUE
           rest == D \ {d}
       IN SubsetsUpTo(rest, k) \cup {X \cup {d} : X \in SubsetsUpTo(rest, k - 1)}

OutSets == SubsetsUpTo(1..N, MaxOut)

KV_uupq == <<"unit", "unit", "prefix", "quantity">>
KV_usqq == <<"unit", "subst", "quantity", "quantity">>
KV_bupu == <<"base", "unit", "prefix", "unit">>
KV_uupqs == <<"unit", "unit", "prefix", "quantity", "subst">>
KV_buqsu == <<"base", "unit", "quantity", "subst", "unit">>
KVFull4_3 == {<<"unit", "prefix", "quantity">>, <<"unit", "subst", "unit">>, <<"base", "unit", "quantity">>}
KVQuick == {KV_uupq}
KVFull4 == {KV_uupq, KV_usqq, KV_bupu}
KVFive == {KV_uupqs}
KVFive2 == {KV_uupqs, KV_buqsu}

GInitCase(l, f) ==
  \E kv \in KindVecs : \E G \in [1..N -> OutSets] :
     /\ l = <<kv, [i \in 1..N |-> SetToSeq(G[i])]>>
     /\ f = <<[i \in 1..N |-> NodeDef(i, kv[i], IF kv[i] = "base" THEN {} ELSE G[i])]>>

GBaseNames == {NodeName(i) : i \in 1..5}

\* ghost label is forgotten at Concat; the graph is recovered from the definitions for printing
GraphJson ==
  [defs |-> defset,
   cyc |-> {a.name : a \in {x \in AllIds : CycleErr(x)}},
   oncycle |-> {a.name : a \in {x \in AllIds : OnCycle(x)}},
   errors |-> errors,
   sorted |-> sorted]
EmitGraph == Done => PrintT(<<"GRAPH", ToJson(GraphJson)>>)
=============================================================================
