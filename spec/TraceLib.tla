------------------------------ MODULE TraceLib ------------------------------
(***************************************************************************)
(* Common part of every Trace_* specification: the recorded execution      *)
(* (NDJSON, one event per line, file name in the environment variable      *)
(* TRACE), a register holding the highest line index any explored          *)
(* behaviour has reached, and the verdict printed by the POSTCONDITION.    *)
(* A trace is accepted iff some behaviour of the trace specification       *)
(* consumes every line; otherwise the first line no behaviour could match  *)
(* is reported.  Run with -workers 1 (the register is per worker).         *)
(***************************************************************************)
EXTENDS Integers, Sequences, TLC, Json, IOUtils

Rec == ndJsonDeserialize(IOEnv.TRACE)
NRec == Len(Rec)

ASSUME TLCSet(1, 0)

\* use as CONSTRAINT Mark(l): remembers the furthest position reached
Mark(pos) == TLCSet(1, IF TLCGet(1) >= pos THEN TLCGet(1) ELSE pos)

Verdict ==
  IF TLCGet(1) >= NRec + 1
  THEN PrintT(<<"TRACE_OK", NRec>>)
  ELSE PrintT(<<"TRACE_REJECT", TLCGet(1), ToJson(Rec[TLCGet(1)])>>)
=============================================================================
