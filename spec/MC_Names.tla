------------------------------ MODULE MC_Names ------------------------------
(***************************************************************************)
(* Small universe for C07 (generator + theorems of Names.tla).             *)
(*                                                                         *)
(* Letters {a, b, s}.  Unit, base-unit and prefix names are among the 12   *)
(* strings of length <= 2.  Every state is one database: at most MaxUnits  *)
(* units (each a base unit or a dimensionless constant) and at most        *)
(* MaxPrefixes prefixes (each short `p--` or long `p-`; a long prefix is   *)
(* also a unit of the same name, as in load.rs), and with MaxAlias = 1 one  *)
(* more unit defined as an alias `x t` of a name t that has exactly one    *)
(* exact or prefix + exact reading.  Values are distinct                   *)
(* primes (unit i -> UPrime[i], prefix i -> PPrime[i]) so that the         *)
(* denotation identifies the reading.  In every database every query       *)
(* string of length <= MaxLen is resolved: the theorems are invariants,    *)
(* and one line per database is printed with the admissible denotations    *)
(* of every name that has any (all other names must not resolve).          *)
(*                                                                         *)
(* Deliberately colliding names (round 3):                                 *)
(*  - MaxPAlias = 1: one more prefix whose VALUE is that of a prefix       *)
(*    already there (`milli-` next to `m-`): two spellings of one prefix;  *)
(*  - MaxCollide = 1: one more unit (value CPrime) whose NAME is           *)
(*    prefix name o exact name [o "s"] of the database, up to MaxLen       *)
(*    letters: an exactly defined unit that is spelled like a prefixed     *)
(*    (or prefixed plural) reading, e.g. `millix` next to `m-`, `milli-`,  *)
(*    `x`.  The name is not one of the 12 short names, so it is kept as a  *)
(*    name, not as an index.                                               *)
(***************************************************************************)
EXTENDS Names, TLC, Json

CONSTANTS MaxUnits, MaxPrefixes, MaxLen, KindMode,   \* KindMode: "all" | "parity" (kind fixed by the name)
          MaxAlias,                                  \* 0 | 1: one more unit defined as an alias `x t` of a name t
          MaxPAlias,                                 \* 0 | 1: one more prefix with the value of an existing prefix
          MaxCollide,                                \* 0 | 1: one more unit named prefix o exact name [o s]
          NN                                         \* the short names in use: indices into NameOf (1..12 = all)

VARIABLES us,         \* sequence of [i, k], ascending in i
          ps,         \* sequence of [i, k, w]: prefix NameOf[i] of kind k and value PPrime[w]; ascending in i with w = i,
                      \* then possibly one more entry with w # i (the second spelling of prefix w)
          co,         \* <<>> or <<name>>: the colliding unit
          al          \* <<>> or <<[i, t]>>: unit NameOf[i] is defined as the bare name t (added last)

L == {97, 98, 115}
NameOf == <<<<97>>, <<98>>, <<115>>,
            <<97, 97>>, <<97, 98>>, <<97, 115>>, <<98, 97>>, <<98, 98>>, <<98, 115>>,
            <<115, 97>>, <<115, 98>>, <<115, 115>>>>
UPrime == <<2, 3, 5, 7, 11, 13, 17, 19, 23, 29, 31, 37>>
PPrime == <<41, 43, 47, 53, 59, 61, 67, 71, 73, 79, 83, 89>>
CPrime == 97
ASSUME NN \subseteq 1..12

Strs(k) == [1..k -> L]
Queries == UNION {Strs(k) : k \in 1..MaxLen}

vars == <<us, ps, co, al>>
Init == us = <<>> /\ ps = <<>> /\ co = <<>> /\ al = <<>>
HasPAlias == \E j \in DOMAIN ps : ps[j].w # ps[j].i

AddUnit(i, k) ==
  /\ ps = <<>> /\ co = <<>> /\ al = <<>> /\ Len(us) < MaxUnits
  /\ (IF us = <<>> THEN TRUE ELSE us[Len(us)].i < i)
  /\ (KindMode = "parity" => k = (IF i % 2 = 1 THEN "base" ELSE "const"))
  /\ us' = Append(us, [i |-> i, k |-> k]) /\ UNCHANGED <<ps, co, al>>

\* a long prefix is entered into `units` under its own name: keep it apart from the unit names so that the
\* database does not depend on the loader's order of insertion (that is C08/C12's subject, not C07's)
AddPrefix(i, k) ==
  /\ al = <<>> /\ co = <<>> /\ ~HasPAlias /\ Len(ps) < MaxPrefixes
  /\ (IF ps = <<>> THEN TRUE ELSE ps[Len(ps)].i < i)
  /\ (k = "long" => \A j \in DOMAIN us : us[j].i # i)
  /\ (KindMode = "parity" => k = (IF i % 3 = 0 THEN "long" ELSE "short"))
  /\ ps' = Append(ps, [i |-> i, k |-> k, w |-> i]) /\ UNCHANGED <<us, co, al>>

\* a second spelling of prefix ps[j]: another name (of any length, either kind), the same value
AddPrefixAlias(i, k, j) ==
  /\ al = <<>> /\ co = <<>> /\ ~HasPAlias /\ MaxPAlias > 0
  /\ j \in DOMAIN ps
  /\ \A x \in DOMAIN ps : ps[x].i # i
  /\ (k = "long" => \A x \in DOMAIN us : us[x].i # i)
  /\ (KindMode = "parity" => k = (IF i % 3 = 0 THEN "long" ELSE "short"))
  /\ ps' = Append(ps, [i |-> i, k |-> k, w |-> ps[j].w]) /\ UNCHANGED <<us, co, al>>

AddBase == \E i \in NN : AddUnit(i, "base")
AddConst == \E i \in NN : AddUnit(i, "const")
AddShort == \E i \in NN : AddPrefix(i, "short")
AddLong == \E i \in NN : AddPrefix(i, "long")
AddAPrefixAlias == \E i \in NN, k \in {"short", "long"} : \E j \in DOMAIN ps : AddPrefixAlias(i, k, j)
Num(k) == VNum(QFromInt(k), DEmpty)

\* the registry the definitions without the alias denote, with the prefixes in the order `ord` (a permutation of DOMAIN ps)
DbBase(ord) ==
  LET consts == {j \in DOMAIN us : us[j].k = "const"}
      longs == {j \in DOMAIN ps : ps[j].k = "long"}
      unames == {NameOf[us[j].i] : j \in consts} \cup {NameOf[ps[j].i] : j \in longs} \cup {co[j] : j \in DOMAIN co}
  IN [base |-> {NameOf[us[j].i] : j \in {x \in DOMAIN us : us[x].k = "base"}},
      units |-> [n \in unames |->
                   IF \E j \in consts : NameOf[us[j].i] = n
                   THEN Num(UPrime[us[CHOOSE j \in consts : NameOf[us[j].i] = n].i])
                   ELSE IF \E j \in longs : NameOf[ps[j].i] = n
                   THEN Num(PPrime[ps[CHOOSE j \in longs : NameOf[ps[j].i] = n].w])
                   ELSE Num(CPrime)],
      prefixes |-> [j \in DOMAIN ps |-> [name |-> NameOf[ps[ord[j]].i], v |-> QFromInt(PPrime[ps[ord[j]].w])]],
      ans |-> VNone, subst |-> {}, closed |-> TRUE]

Ident == [j \in DOMAIN ps |-> j]
Orders == {f \in [DOMAIN ps -> DOMAIN ps] : \A a, b \in DOMAIN ps : f[a] = f[b] => a = b}

\* the colliding unit: its name is spelled prefix name o exactly defined name [o "s"] and is not yet defined exactly
ColliderNames(db) ==
  {n \in {NameOf[ps[j].i] \o u \o suf : j \in DOMAIN ps, u \in db.base \cup DOMAIN db.units, suf \in {<<>>, <<115>>}} :
     Len(n) <= MaxLen /\ ~IsExact(db, n)}
AddCollider(n) ==
  /\ al = <<>> /\ co = <<>> /\ MaxCollide > 0
  /\ co' = <<n>> /\ UNCHANGED <<us, ps, al>>
AddACollider == \E n \in ColliderNames(DbBase(Ident)) : AddCollider(n)

\* an alias `x t`: x is a new name, t (length <= 2, not x) has exactly one admissible reading, and that reading is
\* exact or prefix + exact (the loader resolves t the same way; a plural or ambiguous t is left to C08/C12).
\* The alias is the last definition added, so every database is reached once.
AliasValue(db, t) == Den(db, CHOOSE r \in Readings(db, t) : TRUE)
WithAlias(db) ==
  IF al = <<>> THEN db
  ELSE [db EXCEPT !.units = [n \in DOMAIN db.units \cup {NameOf[al[1].i]} |->
                               IF n = NameOf[al[1].i] THEN AliasValue(db, al[1].t) ELSE db.units[n]]]
AddAlias(i, t) ==
  /\ al = <<>> /\ MaxAlias > 0
  /\ \A j \in DOMAIN us : us[j].i # i
  /\ \A j \in DOMAIN ps : ps[j].k = "long" => ps[j].i # i
  /\ t # NameOf[i]
  /\ \A j \in DOMAIN co : co[j] # NameOf[i]
  /\ \E db \in {DbBase(Ident)} :
       /\ Cardinality(Readings(db, t)) = 1
       /\ \A r \in Readings(db, t) : r.cls <= 1
       /\ \E dba \in {[db EXCEPT !.units = [n \in DOMAIN db.units \cup {NameOf[i]} |->
                                               IF n = NameOf[i] THEN AliasValue(db, t) ELSE db.units[n]]]} :
            Readings(dba, t) = Readings(db, t)            \* the new name does not open a second reading of t
  /\ al' = <<[i |-> i, t |-> t]>> /\ UNCHANGED <<us, ps, co>>
AddAnAlias == \E i \in NN, t \in Strs(1) \cup Strs(2) : AddAlias(i, t)

Next == AddBase \/ AddConst \/ AddShort \/ AddLong \/ AddAPrefixAlias \/ AddACollider \/ AddAnAlias
Spec == Init /\ [][Next]_vars
\* A definition the loader REFUSES (a substance one of whose properties does not evaluate, a unit whose text does not
\* evaluate) is a stuttering step of this machine: [Next]_vars admits it, no state of TLC's graph is added by it.  The
\* history leg of the C07 engine takes it in every second history (a refused substance whose property, input and output
\* names are names of the query alphabet): every name must denote afterwards what it denoted in the state before, i.e.
\* nothing a refused definition bound while it was being evaluated (Context::temporaries) may outlive the load.
Refuse == UNCHANGED vars

DbOrd(ord) == WithAlias(DbBase(ord))
Db == DbOrd(Ident)

\* (db and the candidate names are bound once: TLC re-evaluates definitions at every use)
TheoremsOn(db, cands) ==
  /\ \A n \in cands :
       /\ ExactWins(db, n)
       /\ PluralLast(db, n)
       /\ LeastClass(db, n)
       /\ (Readings(db, n) # {} => CanonOK(db, n, n))                 \* the law is reflexive
  /\ \A ord \in Orders : \E dbo \in {DbOrd(ord)} :                   \* whatever order the loader leaves
       \A n \in Queries :
         IF n \in cands THEN TranscriptionAdmissible(dbo, n) ELSE RegistryLookup(dbo, n).t = "none"

Theorems == \E db \in {Db} : TheoremsOn(db, {n \in Queries : CandidateReadings(db, n) # {}})

\* denotations as native integers: [v, d] with d the base unit's name or <<>>
Flat(val) == [v |-> QToNative(val.v), d |-> IF DIsEmpty(val.d) THEN <<>> ELSE CHOOSE u \in DOMAIN val.d : TRUE]

CaseOf(db) ==
  [units |-> [j \in DOMAIN us |-> [name |-> NameOf[us[j].i], k |-> us[j].k, v |-> UPrime[us[j].i]]]
             \o [j \in DOMAIN co |-> [name |-> co[j], k |-> "const", v |-> CPrime]],
   alias |-> [j \in DOMAIN al |-> [name |-> NameOf[al[j].i], t |-> al[j].t, den |-> Flat(db.units[NameOf[al[j].i]])]],
   prefixes |-> [j \in DOMAIN ps |-> [name |-> NameOf[ps[j].i], k |-> ps[j].k, v |-> PPrime[ps[j].w]]],
   hits |-> {[name |-> n, adm |-> {Flat(Den(db, r)) : r \in Readings(db, n)},
              ncand |-> Cardinality(CandidateReadings(db, n))] :
               n \in {q \in Queries : Readings(db, q) # {}}}]

Emit == PrintT(<<"CASE", ToJson(CaseOf(Db))>>)
=============================================================================
