------------------------------ MODULE MC_Cache ------------------------------
EXTENDS Cache, Json
(* Bounded configurations of Cache.tla.                                    *)
(*   MC_Cache_full   every (prior, server, entry), Crash in every state,   *)
(*                   transfer may fail at any moment (NetMayFail): the     *)
(*                   property invariants.                                   *)
(*   MC_Cache_gen    same space with a deterministic network; prints one   *)
(*                   REPLAY line per (prior, server, entry[, aged]) when   *)
(*                   the next start has finished and nobody was killed.    *)
(*   MC_Cache_v*     the protocols the code must not implement: each must  *)
(*                   violate the named invariant (non-vacuity).  v_trunc   *)
(*                   (a transfer error is ignored) is checked without the  *)
(*                   validation step and without close-delimited answers:  *)
(*                   framing alone must defend a Content-Length body;      *)
(*                   v_noval is the protocol without the validation step   *)
(*                   against close-delimited answers; v_fixedtmp the fixed *)
(*                   temp file name (violates Recovers after a kill).      *)

MCCuts  == 0..(NewLen - 1)
MCCodes == {301, 404, 500}
MCOne   == {1}

After == IF cache = NewC THEN "new" ELSE IF cache = PriorC THEN "prior" ELSE "mixed"

\* what the property admits after this combination, whatever the moment of a kill
Allowed == IF server.mode \in Succeeds THEN <<"prior", "new">> ELSE <<"prior">>

EmitCase ==
  (run = 2 /\ pc = "done" /\ ~r1.crashed) =>
     PrintT(<<"REPLAY", ToJson(
        [prior |-> prior, server |-> server, entry |-> entry, aged |-> r1.aged, newlen |-> NewLen,
         expect |-> [allowed   |-> Allowed,        \* cache afterwards, with or without a kill
                     after     |-> After,          \* ... when nobody is killed
                     refresh   |-> r1.refresh,     \* none = no refresh attempted (fresh cache at startup)
                     start_ok  |-> (entry = "fetch" \/ r1.started),
                     exit_ok   |-> (entry = "startup" \/ r1.refresh = "ok"),
                     used      |-> r1.used,        \* rates this start answers with (startup only)
                     fallback  |-> r1.fellback,
                     next_ok   |-> started,
                     next_used |-> used]])>>)      \* rates the next start (server down) answers with
=============================================================================
