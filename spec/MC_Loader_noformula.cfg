SPECIFICATION Spec
CONSTANTS
  InitCase <- MCInitCase
  BaseNames <- MCBaseNames
  MaxDefs = 3
  MaxFiles = 2
  PoolSel = {28,29,32}
  LinkFormulas <- NoLink
INVARIANTS TopoOrder ForwardRefsResolve
PROPERTIES Progress
CHECK_DEADLOCK FALSE
