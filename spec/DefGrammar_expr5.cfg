SPECIFICATION Spec
INVARIANT Emit
CHECK_DEADLOCK FALSE
CONSTANTS
  Tokens <- AlphaExpr
  Prefix <- PreExpr
  Suffix <- NoText
  MaxLen = 5
