SPECIFICATION TSpec
CONSTRAINT Reached
POSTCONDITION Verdict
CHECK_DEADLOCK FALSE
