\* The code before the "fix:" commit (realloc without fetch_max): TLC must find PeakOK violated.
SPECIFICATION Spec
CONSTANTS
  Threads <- MCThreads1
  Limit = 8
  Sizes = {1, 4}
  MaxOps = 3
  Blocks = {1, 2}
  ParentMayFail = FALSE
  ReallocTracksPeak = FALSE
  ResetOps = FALSE
  KeepHistory = FALSE
INVARIANTS PeakOK
CHECK_DEADLOCK FALSE
