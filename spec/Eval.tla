-------------------------------- MODULE Eval --------------------------------
(***************************************************************************)
(* Meaning of Rink expressions: exact rationals (BigNum) with              *)
(* dimensionalities (Dim).  Ev(e, env) is the value the property           *)
(* statements C01/C02/C10 determine for expression e in database env:      *)
(*                                                                         *)
(*   [t |-> "num",   v : Q, d : Dim]     an exact number                   *)
(*   [t |-> "float", d : Dim, mayerr]    a float-valued result (value not  *)
(*                                       specified; mayerr: an error is    *)
(*                                       admissible too, e.g. x / sin(0))  *)
(*   [t |-> "err",   c : class]          refusal                           *)
(*   [t |-> "unknown"]                   the specification is silent       *)
(*   [t |-> "huge"]                      too large to evaluate here        *)
(*   [t |-> "date"/"subst", ...]         other kinds (DateTime/Substance)  *)
(*                                                                         *)
(* env = [base : set of names, units : name -> value, prefixes : sequence  *)
(*        of [name, v], ans : value or VNone, subst: set of names]         *)
(***************************************************************************)
EXTENDS Grammar, Dim

VNum(v, d) == [t |-> "num", v |-> v, d |-> d]
VFloat(d, me) == [t |-> "float", d |-> d, mayerr |-> me]
VErr(c) == [t |-> "err", c |-> c]
VUnknown == [t |-> "unknown"]
VHuge == [t |-> "huge"]
VNone == [t |-> "none"]
VOther(kind) == [t |-> kind]

IsNumLike(x) == x.t \in {"num", "float"}
EmptyEnv == [base |-> {}, units |-> [u \in {} |-> VNone], prefixes |-> <<>>, ans |-> VNone, subst |-> {},
             closed |-> TRUE, textbook |-> FALSE, hasq |-> FALSE]

(* ---- name lookup as Registry::lookup does it (registry.rs:29-70) ---- *)
IsPrefixSeq(p, s) == Len(p) <= Len(s) /\ SubSeq(s, 1, Len(p)) = p
DropSeq(s, n) == SubSeq(s, n + 1, Len(s))

LookupExact(env, name) ==
  IF name \in env.base THEN VNum(QOne, DBase(name))
  ELSE IF name \in DOMAIN env.units THEN env.units[name]
  ELSE VNone

ScaleBy(val, q) == IF val.t = "num" THEN VNum(QMul(val.v, q), val.d) ELSE val

RECURSIVE LookupPrefixFrom(_, _, _)
LookupPrefixFrom(env, name, i) ==
  IF i > Len(env.prefixes) THEN VNone
  ELSE LET p == env.prefixes[i] IN
       IF IsPrefixSeq(p.name, name) /\ LookupExact(env, DropSeq(name, Len(p.name))).t # "none"
       THEN ScaleBy(LookupExact(env, DropSeq(name, Len(p.name))), p.v)
       ELSE LookupPrefixFrom(env, name, i + 1)

LookupWithPrefix(env, name) ==
  IF LookupExact(env, name).t # "none" THEN LookupExact(env, name) ELSE LookupPrefixFrom(env, name, 1)

RegistryLookup(env, name) ==
  IF LookupWithPrefix(env, name).t # "none" THEN LookupWithPrefix(env, name)
  ELSE IF name # <<>> /\ name[Len(name)] = 115 THEN LookupWithPrefix(env, SubSeq(name, 1, Len(name) - 1))
  ELSE VNone

CtxLookup(env, name) ==
  IF name \in {W_ans, W_ANS, W_us} THEN env.ans ELSE RegistryLookup(env, name)

(* ---- operators on values ---- *)
Two31 == QFromZ(Z(FALSE, NPow2(31)))
RadianDim == DBase(W_radian)

\* the integer k of a rational known to be integral and |k| < 2^31
QToNative(x) == ZToInt(QToZ(x))

MayErr(a) == a.t = "float" /\ a.mayerr

NumAdd(a, b, sub) ==
  IF ~DEq(a.d, b.d) THEN VErr("generic")
  ELSE IF a.t = "num" /\ b.t = "num" THEN VNum(IF sub THEN QSub(a.v, b.v) ELSE QAdd(a.v, b.v), a.d)
  ELSE VFloat(a.d, MayErr(a) \/ MayErr(b))

NumMul(a, b) ==
  IF a.t = "num" /\ b.t = "num" THEN VNum(QMul(a.v, b.v), DMul(a.d, b.d))
  ELSE VFloat(DMul(a.d, b.d), MayErr(a) \/ MayErr(b))

NumDiv(a, b) ==
  IF b.t = "num" /\ QIsZero(b.v) THEN VErr("generic")
  ELSE IF a.t = "num" /\ b.t = "num" THEN VNum(QDiv(a.v, b.v), DDiv(a.d, b.d))
  ELSE VFloat(DDiv(a.d, b.d), MayErr(a) \/ b.t = "float")      \* a float divisor may be zero

PowCostOK(a, k) ==   \* keep the specification's own arithmetic bounded: result below ~2^3600
  LET bits == 12 * (Len(a.v.n.mag) + Len(a.v.d))
      kk == IF k < 0 THEN -k ELSE k
  IN kk <= 3000 /\ bits * kk <= 3600

NumPow(a, b) ==
  IF ~DIsEmpty(b.d) THEN VErr("generic")
  ELSE IF b.t = "float" THEN VUnknown            \* result kind depends on the float's value
  ELSE IF ~QLt(QAbs(b.v), Two31) THEN VErr("generic")
  ELSE IF QIsInt(b.v) THEN
       LET k == QToNative(b.v) IN
       IF a.t = "float" THEN VFloat(DPow(a.d, k), a.mayerr)
       ELSE IF k < 0 /\ QIsZero(a.v) THEN VErr("generic")
       ELSE IF ~PowCostOK(a, k) THEN VHuge
       ELSE VNum(QPow(a.v, k), DPow(a.d, k))
  ELSE LET r == QReduce(b.v) IN
       IF r.n = ZOne THEN        \* 1/n : a root
          (IF ~NFitsInt(r.d) THEN VUnknown
           ELSE IF a.t = "num" /\ QSign(a.v) < 0 THEN VErr("generic")
           ELSE IF ~DRootOK(a.d, NToInt(r.d)) THEN VErr("generic")
           ELSE VFloat(DRoot(a.d, NToInt(r.d)), a.t = "float"))
       ELSE IF ~DIsEmpty(a.d) THEN VErr("generic")
       ELSE VFloat(DEmpty, MayErr(a))

ShiftCostOK(k) == k <= 2000

NumShift(a, b, left) ==
  IF ~DIsEmpty(b.d) THEN VErr("generic")
  ELSE IF b.t = "float" THEN VUnknown
  ELSE IF ~QLt(QAbs(b.v), Two31) THEN VErr("generic")
  ELSE IF ~QIsInt(b.v) THEN VErr("generic")
  ELSE LET k == QToNative(b.v) IN
       IF ~ShiftCostOK(IF k < 0 THEN -k ELSE k) THEN VHuge
       ELSE IF k < 0 THEN [t |-> "shiftneg", a |-> a, k |-> k, left |-> left]   \* error or the exact value: see Agree
       ELSE IF a.t = "float" THEN VFloat(a.d, a.mayerr)
       ELSE VNum(IF left THEN QMul(a.v, QPow2(k)) ELSE QMul(a.v, QPow2(-k)), a.d)

NumRem(a, b) ==
  IF ~DEq(a.d, b.d) THEN VErr("generic")
  ELSE IF b.t = "num" /\ QIsZero(b.v) THEN VErr("generic")       \* undefined whatever the dividend is
  ELSE IF a.t = "num" /\ b.t = "num" THEN VNum(QRem(a.v, b.v), a.d)
  ELSE VFloat(a.d, MayErr(a) \/ MayErr(b))

NumBit(op, a, b) ==
  IF ~DIsEmpty(a.d) \/ ~DIsEmpty(b.d) THEN VErr("generic")
  ELSE IF a.t # "num" \/ b.t # "num" THEN VErr("generic")
  ELSE IF ~QIsInt(a.v) \/ ~QIsInt(b.v) THEN VErr("generic")
  ELSE LET x == QToZ(a.v)
           y == QToZ(b.v)
       IN VNum(QFromZ(CASE op = "and" -> ZAnd(x, y) [] op = "or" -> ZOr(x, y) [] op = "xor" -> ZXor(x, y)), DEmpty)

\* the six scale operators: (scale unit, zero point), both looked up in the database
DegreeNames(deg) ==
  CASE deg = "celsius" -> <<W_kelvin, W_zerocelsius>>
    [] deg = "fahrenheit" -> <<W_degrankine, W_zerofahrenheit>>
    [] deg = "reaumur" -> <<W_reaumur_absolute, W_zerocelsius>>
    [] deg = "romer" -> <<W_romer_absolute, W_zeroromer>>
    [] deg = "delisle" -> <<W_delisle_absolute, W_zerodelisle>>
    [] deg = "newton" -> <<W_newton_absolute, W_zerocelsius>>

\* the textbook affine maps to kelvin (property C10), independent of any definitions file:
\*   C: x + 273.15   F: (x + 459.67) 5/9   Re: x 5/4 + 273.15   Ro: (x - 7.5) 40/21 + 273.15
\*   De: 373.15 - x 2/3   N: x 100/33 + 273.15
TextbookScale(deg) ==
  CASE deg = "celsius" -> QFrac(1, 1) [] deg = "fahrenheit" -> QFrac(5, 9) [] deg = "reaumur" -> QFrac(5, 4)
    [] deg = "romer" -> QFrac(40, 21) [] deg = "delisle" -> QFrac(-2, 3) [] deg = "newton" -> QFrac(100, 33)
TextbookZero(deg) ==
  CASE deg = "celsius" -> QFrac(27315, 100) [] deg = "fahrenheit" -> QFrac(45967, 180)
    [] deg = "reaumur" -> QFrac(27315, 100) [] deg = "romer" -> QFrac(181205, 700)
    [] deg = "delisle" -> QFrac(37315, 100) [] deg = "newton" -> QFrac(27315, 100)
KelvinDim == DBase(W_K)

DegreeScale(env, deg) == IF env.textbook THEN VNum(TextbookScale(deg), KelvinDim) ELSE CtxLookup(env, DegreeNames(deg)[1])
DegreeZero(env, deg) == IF env.textbook THEN VNum(TextbookZero(deg), KelvinDim) ELSE CtxLookup(env, DegreeNames(deg)[2])

IsDegree(op) == op \in {"celsius", "fahrenheit", "reaumur", "romer", "delisle", "newton"}

BinValue(op, a, b) ==
  \* a, b are values that are not errors
  IF a.t \in {"unknown", "huge", "shiftneg"} \/ b.t \in {"unknown", "huge", "shiftneg"} THEN
     (IF a.t = "huge" \/ b.t = "huge" THEN VHuge ELSE VUnknown)
  ELSE IF ~IsNumLike(a) \/ ~IsNumLike(b) THEN VUnknown     \* dates, substances: other modules
  ELSE CASE op = "add" -> NumAdd(a, b, FALSE)
         [] op = "sub" -> NumAdd(a, b, TRUE)
         [] op = "frac" -> NumDiv(a, b)
         [] op = "pow" -> NumPow(a, b)
         [] op = "shl" -> NumShift(a, b, TRUE)
         [] op = "shr" -> NumShift(a, b, FALSE)
         [] op = "mod" -> NumRem(a, b)
         [] op \in {"and", "or", "xor"} -> NumBit(op, a, b)

Func1(f, x) ==
  IF ~IsNumLike(x) THEN (IF x.t \in {"date", "subst"} THEN VErr("generic") ELSE VUnknown)
  ELSE CASE f = "sqrt" ->
              IF x.t = "num" /\ QSign(x.v) < 0 THEN VErr("generic")
              ELSE IF ~DRootOK(x.d, 2) THEN VErr("generic")
              ELSE VFloat(DRoot(x.d, 2), x.t = "float")
         [] f \in {"sin", "cos", "tan"} ->
              IF ~DIsEmpty(x.d) /\ ~DEq(x.d, RadianDim) THEN VErr("generic") ELSE VFloat(DEmpty, MayErr(x))
         [] f \in {"asin", "acos", "atan"} ->
              IF ~DIsEmpty(x.d) THEN VErr("generic") ELSE VFloat(RadianDim, MayErr(x))
         [] OTHER ->   \* exp ln log2 log10 sinh cosh tanh asinh acosh atanh: dimension kept as given
              IF DIsEmpty(x.d) THEN VFloat(DEmpty, MayErr(x)) ELSE VUnknown

Func2(f, x, y) ==
  IF ~IsNumLike(x) \/ ~IsNumLike(y) THEN
     (IF x.t \in {"date", "subst"} \/ y.t \in {"date", "subst"} THEN VErr("generic") ELSE VUnknown)
  ELSE CASE f = "hypot" -> IF ~DEq(x.d, y.d) THEN VErr("generic") ELSE VFloat(x.d, MayErr(x) \/ MayErr(y))
         [] f = "atan2" -> IF ~DEq(x.d, y.d) THEN VErr("generic") ELSE VFloat(RadianDim, MayErr(x) \/ MayErr(y))
         [] f = "log" -> IF ~DIsEmpty(y.d) THEN VErr("generic")
                         ELSE IF DIsEmpty(x.d) THEN VFloat(DEmpty, MayErr(x) \/ MayErr(y)) ELSE VUnknown

Arity(f) == IF f \in {"hypot", "atan2", "log"} THEN 2 ELSE 1

RECURSIVE Ev(_, _), EvMul(_, _, _, _), EvArgs(_, _, _, _)

\* fold of a product, starting from 1 (eval.rs:153-160)
EvMul(es, env, i, acc) ==
  IF i > Len(es) THEN acc
  ELSE LET b == Ev(es[i], env) IN
       IF b.t = "err" THEN b
       ELSE IF acc.t \in {"unknown", "huge", "shiftneg"} \/ b.t \in {"unknown", "huge", "shiftneg"}
            THEN EvMul(es, env, i + 1, IF acc.t = "huge" \/ b.t = "huge" THEN VHuge ELSE VUnknown)
       ELSE IF ~IsNumLike(acc) \/ ~IsNumLike(b) THEN EvMul(es, env, i + 1, VUnknown)
       ELSE EvMul(es, env, i + 1, NumMul(acc, b))

\* arguments left to right; the first error wins: [ok, vs, err]
EvArgs(args, env, i, acc) ==
  IF i > Len(args) THEN [ok |-> TRUE, vs |-> acc, err |-> VNone]
  ELSE LET v == Ev(args[i], env) IN
       IF v.t = "err" THEN [ok |-> FALSE, vs |-> <<>>, err |-> v] ELSE EvArgs(args, env, i + 1, Append(acc, v))

Ev(e, env) ==
  CASE e.k = "const" -> VNum(e.v, DEmpty)
    [] e.k = "huge" -> VHuge
    [] e.k = "err" -> VErr("generic")
    [] e.k = "quote" -> VNum(QOne, DBase(e.s))
    [] e.k = "date" -> VUnknown
    [] e.k = "unit" ->
         IF e.name = W_now THEN VOther("date")
         ELSE LET v == CtxLookup(env, e.name) IN
              IF v.t # "none" THEN v
              ELSE IF e.name \in env.subst THEN VOther("subst")
              ELSE IF env.closed THEN VErr("notfound") ELSE VUnknown
    [] e.k = "bin" ->
         IF e.op = "equals"
         THEN (IF e.l.k # "unit" THEN VErr("generic") ELSE Ev(e.r, env))
         ELSE LET a == Ev(e.l, env) IN
              IF a.t = "err" THEN a
              ELSE LET b == Ev(e.r, env) IN
                   IF b.t = "err" THEN b ELSE BinValue(e.op, a, b)
    [] e.k = "un" ->
         LET x == Ev(e.e, env) IN
         IF x.t = "err" THEN x
         ELSE IF x.t \in {"unknown", "huge", "shiftneg"} THEN (IF x.t = "huge" THEN VHuge ELSE VUnknown)
         ELSE IF e.op = "pos" THEN x
         ELSE IF e.op = "neg" THEN
              (IF x.t = "num" THEN VNum(QNeg(x.v), x.d)
               ELSE IF x.t = "float" THEN x ELSE VErr("generic"))
         ELSE \* a temperature scale operator
              IF ~IsNumLike(x) THEN VErr("generic")
              ELSE IF ~DIsEmpty(x.d) THEN VErr("generic")
              ELSE LET scale == DegreeScale(env, e.op)
                       zero == DegreeZero(env, e.op)
                   IN IF scale.t # "num" \/ zero.t # "num" THEN VUnknown
                      ELSE NumAdd(NumMul(x, scale), zero, FALSE)
    [] e.k = "mul" -> EvMul(e.es, env, 1, VNum(QOne, DEmpty))
    [] e.k = "of" -> LET x == Ev(e.e, env) IN IF x.t = "err" THEN x ELSE VUnknown
    [] e.k = "call" ->
         LET ar == EvArgs(e.args, env, 1, <<>>)
             args == ar.vs
         IN
         IF ~ar.ok THEN ar.err
         ELSE IF Len(args) # Arity(e.f) THEN
              \* the code checks argument kinds left to right before the count; both are generic errors
              VErr("generic")
         ELSE IF \E i \in DOMAIN args : args[i].t \in {"unknown", "huge", "shiftneg"} THEN VUnknown
         ELSE IF Arity(e.f) = 1 THEN Func1(e.f, args[1]) ELSE Func2(e.f, args[1], args[2])

-----------------------------------------------------------------------------
(* agreement between the specification's value and an observation of the code:
   obs = [t: "num", v, d] | [t: "float", d] | [t: "err", c] | [t: "date"|"subst"|...]      *)
ObsDim(o) == DFromJson(o.d)

Agree(spec, o) ==
  CASE spec.t = "num" -> o.t = "num" /\ QEq(spec.v, o.v) /\ DEq(spec.d, ObsDim(o))
    [] spec.t = "float" -> (o.t = "float" /\ DEq(spec.d, ObsDim(o))) \/ (spec.mayerr /\ o.t = "err")
    [] spec.t = "err" -> o.t = "err" /\ (spec.c = "conformance" => o.c = "conformance")
    [] spec.t = "shiftneg" ->
         \/ o.t = "err"
         \/ (spec.a.t = "num" /\ o.t = "num" /\ DEq(spec.a.d, ObsDim(o))
             /\ QEq(o.v, IF spec.left THEN QMul(spec.a.v, QPow2(spec.k)) ELSE QMul(spec.a.v, QPow2(-spec.k))))
         \/ (spec.a.t = "float" /\ o.t = "float")
    [] spec.t \in {"date", "subst"} -> o.t = spec.t
    [] OTHER -> TRUE          \* unknown, huge: the specification is silent
Silent(spec) == spec.t \in {"unknown", "huge"}
=============================================================================
