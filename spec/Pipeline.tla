------------------------------- MODULE Pipeline -------------------------------
(***************************************************************************)
(* Property C04 (totality) as a state machine of one request on a          *)
(* long-lived context:                                                     *)
(*                                                                         *)
(*   Idle -> Lexed -> Parsed -> Evaluated(reply | error)                   *)
(*        -> RenderedText -> RenderedSpans -> RenderedJson -> Idle         *)
(*                                                                         *)
(* Every stage ends in a value; there is NO crash action: a panic, an      *)
(* abort, a stack overflow has no matching step.  GiveUp (the watchdog or  *)
(* the memory limit stopped the evaluation) is enabled only for EXPENSIVE  *)
(* inputs: those whose exact result may need more than Theta bits, by the  *)
(* static bound CostBits below (huge literal exponents, powers, shift      *)
(* counts) - that is what the sandbox is for.  After any outcome the       *)
(* context is Idle again and accepts the next request.                     *)
(***************************************************************************)
EXTENDS Grammar

Cap == 1000000000          \* "astronomical": all cost arithmetic saturates here (fits 32-bit integers)
Theta == 60000             \* results up to 2^Theta are cheap (measured: 2^100000 prints in 4.5 s)

Sat(x) == IF x > Cap THEN Cap ELSE x
SatAdd(a, b) == IF a >= Cap \/ b >= Cap THEN Cap ELSE Sat(a + b)
SatMul(a, b) == IF a = 0 \/ b = 0 THEN 0
                ELSE IF a >= Cap \/ b >= Cap THEN Cap
                ELSE IF a > Cap \div b THEN Cap ELSE a * b
Max2c(a, b) == IF a >= b THEN a ELSE b

RECURSIVE Pow2Sat(_)
Pow2Sat(k) == IF k >= 30 THEN Cap ELSE IF k <= 0 THEN 1 ELSE 2 * Pow2Sat(k - 1)

\* bits of numerator plus denominator of a constant
ConstBits(v) == 12 * (Len(v.n.mag) + Len(v.d))
\* an upper bound of |value| as an integer exponent: a constant c satisfies |c| < 2^(12 * limbs)
\* (a literal below 2^24 is bounded by its own integer part + 1: `m^10` must not be classed like `m^4095`)
ValueBound(e) == IF e.k # "const" THEN Cap
                 ELSE IF Len(e.v.n.mag) <= 2 /\ Len(e.v.d) <= 2 /\ ~NIsZero(e.v.d)
                      THEN Sat((NToInt(e.v.n.mag) \div NToInt(e.v.d)) + 1)
                      ELSE Pow2Sat(12 * Len(e.v.n.mag))

UnitBits == 600    \* database values: a few hundred bits

\* upper bound on log2 of numerator and denominator of the exact result of e
RECURSIVE CostBits(_), CostSeq(_, _)
CostSeq(es, i) == IF i > Len(es) THEN 0 ELSE SatAdd(CostBits(es[i]), CostSeq(es, i + 1))
CostBits(e) ==
  CASE e.k = "const" -> ConstBits(e.v)
    [] e.k = "huge" -> Cap
    [] e.k \in {"unit", "quote", "of", "date", "err"} -> UnitBits
    [] e.k = "un" -> SatAdd(CostBits(e.e), UnitBits)
    [] e.k = "mul" -> CostSeq(e.es, 1)
    [] e.k = "call" -> SatAdd(CostSeq(e.args, 1), 2000)
    [] e.k = "bin" ->
         CASE e.op \in {"add", "sub", "mod", "frac", "equals", "and", "or", "xor"} -> SatAdd(SatAdd(CostBits(e.l), CostBits(e.r)), 1)
           [] e.op = "pow" ->
                \* |exponent| is below ValueBound of the right operand when it is a literal; the evaluator refuses
                \* exponents of 2^31 and more, but anything in between is astronomically large
                (IF e.r.k = "const" \/ (e.r.k = "un" /\ e.r.e.k = "const")
                 THEN SatMul(CostBits(e.l), ValueBound(IF e.r.k = "const" THEN e.r ELSE e.r.e))
                 ELSE SatMul(CostBits(e.l), Pow2Sat(CostBits(e.r))))
           [] e.op \in {"shl", "shr"} ->
                (IF e.r.k = "const" \/ (e.r.k = "un" /\ e.r.e.k = "const")
                 THEN SatAdd(CostBits(e.l), ValueBound(IF e.r.k = "const" THEN e.r ELSE e.r.e))
                 ELSE SatAdd(CostBits(e.l), Pow2Sat(CostBits(e.r))))

QueryCost(q) ==
  CASE q.k \in {"expr", "factorize", "unitsfor"} -> CostBits(q.e)
    [] q.k = "convert" -> SatAdd(CostBits(q.e),
                                 SatAdd(IF q.conv.c = "expr" THEN CostBits(q.conv.e) ELSE 0,
                                        \* `-> digits N` prints N digits: N itself is a cost
                                        IF q.digits.m = "digits" THEN (IF NFitsInt(q.digits.n) THEN Sat(4 * NToInt(q.digits.n)) ELSE Cap)
                                        ELSE IF q.digits.m = "full" THEN Theta + 1 ELSE 0))
    [] OTHER -> 0

Expensive(q) == QueryCost(q) > Theta

\* a literal with a huge exponent is converted to a number while the text is READ: the input is expensive whatever the rest of
\* the text turns out to be, also when the query as a whole is malformed (`( 1e999999999`) and has no tree to take a cost from
HasHugeLiteral(text) ==
  LET toks == Lex(text) IN
  \E i \in DOMAIN toks : toks[i].k = "dec" /\ toks[i].hasexp /\ ExpOf(toks[i]).s = "huge"
ExpensiveText(text) == HasHugeLiteral(text) \/ Expensive(ParseQueryText(text))

-----------------------------------------------------------------------------
(* the stage machine; `obs` is the outcome the environment (the code) produces *)
VARIABLES stage, req, outcome
Stages == {"idle", "lexed", "parsed", "evaluated", "text", "spans", "json"}

PInit == stage = "idle" /\ req = <<>> /\ outcome = "none"
Submit(q) == stage = "idle" /\ req' = q /\ stage' = "lexed" /\ outcome' = "none"
DoParse == stage = "lexed" /\ stage' = "parsed" /\ UNCHANGED <<req, outcome>>
Evaluate(o) == stage = "parsed" /\ o \in {"reply", "error"} /\ outcome' = o /\ stage' = "evaluated" /\ UNCHANGED req
RenderText == stage = "evaluated" /\ stage' = "text" /\ UNCHANGED <<req, outcome>>
RenderSpans == stage = "text" /\ stage' = "spans" /\ UNCHANGED <<req, outcome>>
RenderJson == stage = "spans" /\ stage' = "json" /\ UNCHANGED <<req, outcome>>
Finish == stage = "json" /\ stage' = "idle" /\ UNCHANGED <<req, outcome>>
\* the only other way out of a request: an expensive input stopped by the watchdog / memory limit
GiveUp == stage \in {"parsed", "evaluated", "text", "spans"} /\ Expensive(ParseQueryText(req))
          /\ stage' = "idle" /\ outcome' = "stopped" /\ UNCHANGED req
=============================================================================
