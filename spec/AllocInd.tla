------------------------------ MODULE AllocInd ------------------------------
(***************************************************************************)
(* Inductive invariant for the sandbox allocator (Alloc.tla), checked with *)
(* Apalache: the accounting and limit clauses of property C19 hold after   *)
(* ANY number of operations (TLC explores Alloc.tla with MaxOps bounded).  *)
(*                                                                         *)
(* Same actions as Alloc.tla, one per atomic operation of alloc.rs, minus  *)
(* the history variables (ops, hist) and the peak (max / peakLive: PeakOK  *)
(* is not inductive without the order of the fetch_add steps and stays     *)
(* with TLC).  The wrapped allocator may always fail.  `Fresh` (the least  *)
(* free block, a CHOOSE) is generalised to any free block.                 *)
(*                                                                         *)
(*   apalache-mc check --cinit=ConstInit --init=Init    --inv=IndInv --length=0 AllocInd.tla   (initiation)       *)
(*   apalache-mc check --cinit=ConstInit --init=IndInit --inv=IndInv --length=1 AllocInd.tla   (consecution)      *)
(*   IndInv => Accounting /\ WithinLimit by definition (they are conjuncts).                                      *)
(***************************************************************************)
EXTENDS Integers, FiniteSets, Apalache

CONSTANTS
  \* @type: Set(Int);
  Threads,
  \* @type: Int;
  Limit,
  \* @type: Set(Int);
  Sizes,
  \* @type: Set(Int);
  Blocks

VARIABLES
  \* @type: Int;
  used,
  \* @type: Int -> Int;
  live,
  \* @type: Int -> Str;
  pc,
  \* @type: Int -> { size: Int, blk: Int, old: Int };
  loc

ConstInit ==
  /\ Threads = {1, 2, 3}
  /\ Blocks = {1, 2, 3}
  /\ Sizes = {1, 2, 3, 6}
  /\ Limit = 5

Labels == {"idle", "a_add", "a_max", "a_parent", "a_undo", "d_parent", "d_sub",
           "r_add", "r_max", "r_parent", "r_subold", "r_undo"}

\* @type: (Int -> Int, Set(Int)) => Int;
Sum(f, S) == ApaFoldSet(LAMBDA acc, x: acc + f[x], 0, S)

LiveTotal == Sum(live, Blocks)

NoLoc == [size |-> 0, blk |-> 0, old |-> 0]

\* the charge a thread holds on `used` that is not (or no longer) backed by a live block
\* @type: Int => Int;
Charge(t) ==
  IF pc[t] \in {"a_max", "a_parent", "a_undo", "d_sub", "r_max", "r_parent", "r_undo"} THEN loc[t].size
  ELSE IF pc[t] = "r_subold" THEN loc[t].old
  ELSE 0
\* the part of it that passed the limit check and may still become live
\* @type: Int => Int;
Committed(t) == IF pc[t] \in {"a_max", "a_parent", "r_max", "r_parent"} THEN loc[t].size ELSE 0

InFlight == Sum([t \in Threads |-> Charge(t)], Threads)
CommittedTotal == Sum([t \in Threads |-> Committed(t)], Threads)

Busy == {loc[t].blk : t \in {u \in Threads : pc[u] # "idle"}}
FreeBlocks == {b \in Blocks : live[b] = 0 /\ b \notin Busy}

-----------------------------------------------------------------------------
Init ==
  /\ used = 0
  /\ live = [b \in Blocks |-> 0]
  /\ pc = [t \in Threads |-> "idle"]
  /\ loc = [t \in Threads |-> NoLoc]

StartAlloc(t, sz, b) ==
  /\ pc[t] = "idle" /\ b \in FreeBlocks
  /\ pc' = [pc EXCEPT ![t] = "a_add"]
  /\ loc' = [loc EXCEPT ![t] = [size |-> sz, blk |-> b, old |-> 0]]
  /\ UNCHANGED <<used, live>>

AAdd(t) ==
  /\ pc[t] = "a_add"
  /\ used' = used + loc[t].size
  /\ pc' = [pc EXCEPT ![t] = IF used + loc[t].size <= Limit THEN "a_max" ELSE "a_undo"]
  /\ UNCHANGED <<live, loc>>

AMax(t) == pc[t] = "a_max" /\ pc' = [pc EXCEPT ![t] = "a_parent"] /\ UNCHANGED <<used, live, loc>>

AParentOk(t) ==
  /\ pc[t] = "a_parent"
  /\ live' = [live EXCEPT ![loc[t].blk] = loc[t].size]
  /\ pc' = [pc EXCEPT ![t] = "idle"]
  /\ loc' = [loc EXCEPT ![t] = NoLoc]
  /\ UNCHANGED used

AParentFail(t) == pc[t] = "a_parent" /\ pc' = [pc EXCEPT ![t] = "a_undo"] /\ UNCHANGED <<used, live, loc>>

AUndo(t) ==
  /\ pc[t] = "a_undo"
  /\ used' = used - loc[t].size
  /\ pc' = [pc EXCEPT ![t] = "idle"]
  /\ loc' = [loc EXCEPT ![t] = NoLoc]
  /\ UNCHANGED live

StartDealloc(t, b) ==
  /\ pc[t] = "idle" /\ live[b] > 0 /\ b \notin Busy
  /\ pc' = [pc EXCEPT ![t] = "d_parent"]
  /\ loc' = [loc EXCEPT ![t] = [size |-> live[b], blk |-> b, old |-> 0]]
  /\ UNCHANGED <<used, live>>

DParent(t) ==
  /\ pc[t] = "d_parent"
  /\ live' = [live EXCEPT ![loc[t].blk] = 0]
  /\ pc' = [pc EXCEPT ![t] = "d_sub"]
  /\ UNCHANGED <<used, loc>>

DSub(t) ==
  /\ pc[t] = "d_sub"
  /\ used' = used - loc[t].size
  /\ pc' = [pc EXCEPT ![t] = "idle"]
  /\ loc' = [loc EXCEPT ![t] = NoLoc]
  /\ UNCHANGED live

StartRealloc(t, b, nsz) ==
  /\ pc[t] = "idle" /\ live[b] > 0 /\ b \notin Busy
  /\ pc' = [pc EXCEPT ![t] = "r_add"]
  /\ loc' = [loc EXCEPT ![t] = [size |-> nsz, blk |-> b, old |-> live[b]]]
  /\ UNCHANGED <<used, live>>

RAdd(t) ==
  /\ pc[t] = "r_add"
  /\ used' = used + loc[t].size
  /\ pc' = [pc EXCEPT ![t] = IF used + loc[t].size <= Limit THEN "r_max" ELSE "r_undo"]
  /\ UNCHANGED <<live, loc>>

RMax(t) == pc[t] = "r_max" /\ pc' = [pc EXCEPT ![t] = "r_parent"] /\ UNCHANGED <<used, live, loc>>

RParentOk(t) ==
  /\ pc[t] = "r_parent"
  /\ live' = [live EXCEPT ![loc[t].blk] = loc[t].size]
  /\ pc' = [pc EXCEPT ![t] = "r_subold"]
  /\ UNCHANGED <<used, loc>>

RParentFail(t) == pc[t] = "r_parent" /\ pc' = [pc EXCEPT ![t] = "r_undo"] /\ UNCHANGED <<used, live, loc>>

RSubOld(t) ==
  /\ pc[t] = "r_subold"
  /\ used' = used - loc[t].old
  /\ pc' = [pc EXCEPT ![t] = "idle"]
  /\ loc' = [loc EXCEPT ![t] = NoLoc]
  /\ UNCHANGED live

RUndo(t) ==
  /\ pc[t] = "r_undo"
  /\ used' = used - loc[t].size
  /\ pc' = [pc EXCEPT ![t] = "idle"]
  /\ loc' = [loc EXCEPT ![t] = NoLoc]
  /\ UNCHANGED live

Stutter == UNCHANGED <<used, live, pc, loc>>

Next ==
  \/ \E t \in Threads :
       \/ \E sz \in Sizes, b \in Blocks : StartAlloc(t, sz, b)
       \/ AAdd(t) \/ AMax(t) \/ AParentOk(t) \/ AParentFail(t) \/ AUndo(t)
       \/ \E b \in Blocks : StartDealloc(t, b)
       \/ DParent(t) \/ DSub(t)
       \/ \E b \in Blocks, sz \in Sizes : StartRealloc(t, b, sz)
       \/ RAdd(t) \/ RMax(t) \/ RParentOk(t) \/ RParentFail(t) \/ RSubOld(t) \/ RUndo(t)
  \/ Stutter

-----------------------------------------------------------------------------
(* Property C19 (accounting and limit clauses) *)
Accounting == used = LiveTotal + InFlight
WithinLimit == LiveTotal <= Limit

TypeOK ==
  /\ used \in Int
  /\ DOMAIN live = Blocks /\ \A b \in Blocks : live[b] >= 0
  /\ DOMAIN pc = Threads /\ \A t \in Threads : pc[t] \in Labels
  /\ DOMAIN loc = Threads

\* what each program counter knows about its block and its local values
Local(t) ==
  LET l == loc[t] IN
  CASE pc[t] = "idle" -> l = NoLoc
    [] pc[t] \in {"a_add", "a_max", "a_parent", "a_undo"} ->
         l.blk \in Blocks /\ l.size \in Sizes /\ l.old = 0 /\ live[l.blk] = 0
    [] pc[t] = "d_parent" -> l.blk \in Blocks /\ l.size > 0 /\ l.old = 0 /\ live[l.blk] = l.size
    [] pc[t] = "d_sub" -> l.blk \in Blocks /\ l.size > 0 /\ l.old = 0 /\ live[l.blk] = 0
    [] pc[t] \in {"r_add", "r_max", "r_parent", "r_undo"} ->
         l.blk \in Blocks /\ l.size \in Sizes /\ l.old > 0 /\ live[l.blk] = l.old
    [] pc[t] = "r_subold" -> l.blk \in Blocks /\ l.size \in Sizes /\ l.old > 0 /\ live[l.blk] = l.size
    [] OTHER -> FALSE

\* no two operations in flight work on the same block
Exclusive == \A t, u \in Threads : (t # u /\ pc[t] # "idle" /\ pc[u] # "idle") => loc[t].blk # loc[u].blk

IndInv ==
  /\ TypeOK
  /\ \A t \in Threads : Local(t)
  /\ Exclusive
  /\ \A s \in Sizes : s > 0
  /\ Accounting
  /\ LiveTotal + CommittedTotal <= Limit      \* strengthening: charges that passed the check are reserved
  /\ WithinLimit

\* an arbitrary state satisfying the invariant (Gen bounds the size of the generated functions)
IndInit ==
  /\ used = Gen(1)
  /\ live = Gen(3)
  /\ pc = Gen(3)
  /\ loc = Gen(3)
  /\ IndInv
=============================================================================
