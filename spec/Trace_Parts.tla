----------------------------- MODULE Trace_Parts -----------------------------
(***************************************************************************)
(* C06: displayed value x displayed unit = computed quantity.              *)
(*                                                                         *)
(* Judges NumberParts recorded from the real evaluator (rv-eval).  A line  *)
(* is one reply:                                                           *)
(*   [kind  : "number" | "conversion" | "def" | "duration" | "unitlist"    *)
(*            | "subst",                                                   *)
(*    base  : the base its numerals are written in,                        *)
(*    truth : the computed quantity [t, v, d] when it is NOT the reply's   *)
(*            own raw value: for conversions (and unit lists) the value of *)
(*            the source expression, evaluated as a query of its own,      *)
(*    main  : NumberParts of a single-number reply (number, conversion,    *)
(*            def, duration total, substance amount),                      *)
(*    list  : NumberParts of unit-list entries / duration breakdown,       *)
(*    rest  : [quantity] of a unit list,                                   *)
(*    props : NumberParts of substance properties,                         *)
(*    names : what Context::lookup returns for every unit name that the    *)
(*            reply prints or carries: [n : name, v : value or absent]]    *)
(*                                                                         *)
(* The law, for every NumberParts p with computed quantity T:              *)
(*   printed unit U = PROD lookup(name_i)^e_i over p.raw_unit - or, when   *)
(*   there is none, over the names printed in p.unit / p.dimensions;       *)
(*   x = T.v * divfactor / (factor * U.v);  dims(U) = dims(T);             *)
(*   an exact numeral denotes x; an approximate (or unmarked list) numeral *)
(*   is x truncated toward zero within one unit of its last digit          *)
(*   (Numeral.tla); raw_dimensions = dims(T) and the dimensions text       *)
(*   spells them; quantity = the registry's name for dims(T).              *)
(* For lists also: SUM numeral_i * U_i <= |T| < SUM (numeral_i + ulp_i)    *)
(* * U_i.                                                                  *)
(*                                                                         *)
(* Verdict words (short: TLC wraps long tuples):                           *)
(*   REJECT l where why   where = "main" | <<"list", i>> | <<"prop", i>>   *)
(*     why: "unreadable" a printed unit name that lookup cannot read       *)
(*          "unit-dims"  printed unit has another dimensionality           *)
(*          "exact" / "approx" / "entry" / "sum"  the value law            *)
(*          "not-in-base" a numeral (fractions included: Numeral.tla reads *)
(*                       numerator and denominator in the reply's base)    *)
(*                       with digits the reply's base does not have        *)
(*          "no-numeral", "raw-dims", "dims-text", "quantity"              *)
(*   UNSUPPORTED l ...   floats, names with blanks, numerals outside the   *)
(*                       grammar, zero factors                             *)
(*   NOTE l ... "no-quantity"  the registry has no name for dims(T)        *)
(*              "unit-text"    unit text and raw_unit disagree             *)
(***************************************************************************)
EXTENDS Numeral, Dim, TLC, Json, IOUtils

Rec == ndJsonDeserialize(IOEnv.TRACE)
NRec == Len(Rec)
Quant == JsonDeserialize(IOEnv.QUANT)          \* [[name, dims], ...] from the registry dump
QuantDims == [k \in DOMAIN Quant |-> DFromJson(Quant[k].dims)]     \* constant: evaluated once

VARIABLE l

Has(r, f) == f \in DOMAIN r

(* ---- values ---- *)
IsNum(j) == j.t = "num"
ValOf(j) == [v |-> Q(j.v.n, j.v.d), d |-> DFromJson(j.d)]
One == [v |-> QOne, d |-> DEmpty]

\* what lookup returned for a name: the table entry, or a record without v
NameEntry(ev, name) ==
  LET hits == {k \in DOMAIN ev.names : ev.names[k].n = name}
  IN IF hits = {} THEN [n |-> name, missing |-> TRUE] ELSE ev.names[CHOOSE k \in hits : TRUE]

\* PROD lookup(u_i)^e_i over entries [u, e]: [ok, why, v, d]
RECURSIVE ProdUnits(_, _, _, _)
ProdUnits(ev, es, i, acc) ==
  IF i > Len(es) THEN [ok |-> TRUE, why |-> "", v |-> acc.v, d |-> acc.d]
  ELSE LET ent == NameEntry(ev, es[i].u) IN
       IF Has(ent, "missing") THEN [ok |-> FALSE, why |-> "table", v |-> QOne, d |-> DEmpty]
       ELSE IF ~Has(ent, "v") THEN [ok |-> FALSE, why |-> "unreadable", v |-> QOne, d |-> DEmpty]
       ELSE IF ~IsNum(ent.v) THEN [ok |-> FALSE, why |-> "float", v |-> QOne, d |-> DEmpty]
       ELSE LET u == ValOf(ent.v) IN
            IF QIsZero(u.v) THEN [ok |-> FALSE, why |-> "zero", v |-> QOne, d |-> DEmpty]
            ELSE ProdUnits(ev, es, i + 1, [v |-> QMul(acc.v, QPow(u.v, es[i].e)), d |-> DMul(acc.d, DPow(u.d, es[i].e))])

\* a raw value whose "dimensions" are unit names (list entries carry the list's own names, substance
\* properties the names of prettified units): value x PROD lookup(name)^e
RawQuantity(ev, raw) ==
  LET u == ProdUnits(ev, raw.d, 1, One) IN
  IF ~u.ok THEN u ELSE [ok |-> TRUE, why |-> "", v |-> QMul(Q(raw.v.n, raw.v.d), u.v), d |-> u.d]

(* ---- the unit text "a b^2 / c d^3" ---- *)
RECURSIVE Tokens(_, _, _, _)
Tokens(s, i, cur, acc) ==
  IF i > Len(s) THEN (IF cur = <<>> THEN acc ELSE Append(acc, cur))
  ELSE IF s[i] = 32 THEN Tokens(s, i + 1, <<>>, IF cur = <<>> THEN acc ELSE Append(acc, cur))
  ELSE Tokens(s, i + 1, Append(cur, s[i]), acc)

BadUnits == <<[bad |-> TRUE]>>
RECURSIVE UnitEntries(_, _, _, _)
UnitEntries(toks, i, sign, acc) ==
  IF i > Len(toks) THEN acc
  ELSE LET t == toks[i] IN
       IF t = <<47>> THEN (IF sign = -1 THEN BadUnits ELSE UnitEntries(toks, i + 1, -1, acc))
       ELSE LET cs == PosOf(t, 94) IN
            IF cs = {} THEN UnitEntries(toks, i + 1, sign, Append(acc, [u |-> t, e |-> sign]))
            ELSE LET c == SetMin(cs)
                     ex == Drop(t, c)
                 IN IF c = 1 \/ ~IsSignedDec(ex) \/ Len(ex) > 6 THEN BadUnits
                    ELSE UnitEntries(toks, i + 1, sign, Append(acc, [u |-> Take(t, c - 1), e |-> sign * SignedDec(ex)]))
ParseUnitText(s) == UnitEntries(Tokens(s, 1, <<>>, <<>>), 1, 1, <<>>)
IsBadUnits(es) == es # <<>> /\ Has(es[1], "bad")
EntriesDim(es) == DClean([u \in {es[k].u : k \in DOMAIN es} |-> es[CHOOSE k \in DOMAIN es : es[k].u = u].e])
EntriesOK(es) == ~IsBadUnits(es) /\ \A j, k \in DOMAIN es : es[j].u = es[k].u => j = k

\* factor / divfactor: decimal integers
IntText(s) == s # <<>> /\ IsSignedDec(s)
IntVal(s) == IF s[1] = ChMinus THEN Z(TRUE, NDigits(DigitSeq(Drop(s, 1)), 10)) ELSE Z(FALSE, NDigits(DigitSeq(s), 10))

(* ---- one NumberParts ---- *)
Say(tag, i, where, why) == PrintT(<<tag, i, where, why>>)

QuantityOK(p, T, i, where) ==
  LET qs == {k \in DOMAIN Quant : DEq(QuantDims[k], T.d)} IN
  IF qs = {} THEN Say("NOTE", i, where, "no-quantity")
  ELSE IF Has(p, "quantity") /\ p.quantity = Quant[CHOOSE k \in qs : TRUE].name THEN TRUE
  ELSE Say("REJECT", i, where, "quantity")

\* the printed unit of p: entries [u, e]
PrintedUnit(p) ==
  IF Has(p, "raw_unit") THEN p.raw_unit
  ELSE IF Has(p, "unit") THEN ParseUnitText(p.unit)
  ELSE IF Has(p, "dimensions") THEN ParseUnitText(p.dimensions)
  ELSE <<>>

\* x: the number the numeral has to stand for
NumeralLaw(p, x, base, single, i, where) ==
  IF single THEN
    /\ (IF Has(p, "exact") \/ Has(p, "approx") THEN TRUE ELSE Say("REJECT", i, where, "no-numeral"))
    /\ (IF ~Has(p, "exact") THEN TRUE
        ELSE IF WrongBase(p.exact, base) THEN Say("REJECT", i, where, "not-in-base")
        ELSE IF ~Supported(p.exact, base) THEN Say("UNSUPPORTED", i, where, "numeral")
        ELSE IF ExactOK(x, p.exact, base) THEN TRUE ELSE Say("REJECT", i, where, "exact"))
    /\ (IF ~Has(p, "approx") THEN TRUE
        ELSE IF WrongBase(p.approx, base) THEN Say("REJECT", i, where, "not-in-base")
        ELSE IF ~Supported(p.approx, base) THEN Say("UNSUPPORTED", i, where, "numeral")
        ELSE IF ApproxOK(x, p.approx, base) THEN TRUE ELSE Say("REJECT", i, where, "approx"))
  ELSE
    IF ~Has(p, "exact") THEN Say("REJECT", i, where, "no-numeral")
    ELSE IF WrongBase(p.exact, base) THEN Say("REJECT", i, where, "not-in-base")
    ELSE IF ~Supported(p.exact, base) THEN Say("UNSUPPORTED", i, where, "numeral")
    ELSE IF WithinOK(x, p.exact, base) THEN TRUE ELSE Say("REJECT", i, where, "entry")

\* T: [ok, v, d] the computed quantity.  single: marked numerals (exact / approx) or an unmarked list entry.
\* realdims: p.raw_dimensions are base units (not for list entries / substance ratio properties).
CheckParts(ev, p, T, single, realdims, wantq, i, where) ==
  IF ~T.ok THEN Say(IF T.why = "unreadable" THEN "REJECT" ELSE "UNSUPPORTED", i, where, T.why)
  ELSE
  \E es \in {PrintedUnit(p)} :
  IF ~EntriesOK(es) THEN Say("UNSUPPORTED", i, where, "unit-syntax")
  ELSE
  \E U \in {ProdUnits(ev, es, 1, One)} :
  IF ~U.ok THEN Say(IF U.why = "unreadable" THEN "REJECT" ELSE "UNSUPPORTED", i, where, U.why)
  ELSE IF (Has(p, "factor") /\ ~IntText(p.factor)) \/ (Has(p, "divfactor") /\ ~IntText(p.divfactor))
       THEN Say("UNSUPPORTED", i, where, "factor-syntax")
  ELSE
  \E F \in {IF Has(p, "factor") THEN IntVal(p.factor) ELSE ZOne},
     G \in {IF Has(p, "divfactor") THEN IntVal(p.divfactor) ELSE ZOne} :
  IF ZIsZero(F) \/ ZIsZero(G) THEN Say("UNSUPPORTED", i, where, "zero-factor")
  ELSE
  /\ (IF DEq(U.d, T.d) THEN TRUE ELSE Say("REJECT", i, where, "unit-dims"))
  /\ (IF ~DEq(U.d, T.d) THEN TRUE
      ELSE \E x \in {QDiv(QMul(T.v, QFromZ(G)), QMul(QFromZ(F), U.v))} :
           NumeralLaw(p, x, ev.base, single, i, where))
  /\ (IF realdims /\ Has(p, "raw_dimensions")
      THEN (IF DJsonOK(p.raw_dimensions) /\ DEq(DFromJson(p.raw_dimensions), T.d) THEN TRUE
            ELSE Say("REJECT", i, where, "raw-dims"))
      ELSE TRUE)
  /\ (IF Has(p, "raw_dimensions") /\ Has(p, "dimensions")
      THEN \E ds \in {ParseUnitText(p.dimensions)} :
           IF ~EntriesOK(ds) THEN Say("UNSUPPORTED", i, where, "dims-syntax")
           ELSE IF DEq(EntriesDim(ds), DFromJson(p.raw_dimensions)) THEN TRUE
           ELSE Say("REJECT", i, where, "dims-text")
      ELSE TRUE)
  /\ (IF Has(p, "raw_unit") /\ Has(p, "unit")
      THEN \E us \in {ParseUnitText(p.unit)} :
           IF EntriesOK(us) /\ DEq(EntriesDim(us), DFromJson(p.raw_unit)) THEN TRUE
           ELSE Say("NOTE", i, where, "unit-text")
      ELSE TRUE)
  /\ (IF wantq THEN QuantityOK(p, T, i, where) ELSE TRUE)

(* ---- lists: the printed entries add up to the quantity ---- *)
\* per entry: [ok, lo, up] = numeral x unit and (numeral + ulp) x unit, magnitudes
EntryBounds(ev, p) ==
  IF ~Has(p, "exact") THEN [ok |-> FALSE]
  ELSE LET rs == Readings(p.exact, ev.base)
           es == PrintedUnit(p)
       IN IF Cardinality(rs) # 1 \/ ~EntriesOK(es) THEN [ok |-> FALSE]
          ELSE LET r == CHOOSE r \in rs : TRUE
                   U == ProdUnits(ev, es, 1, One)
               IN IF ~U.ok \/ QSign(U.v) <= 0 THEN [ok |-> FALSE]
                  ELSE [ok |-> TRUE, sg |-> QSign(r.v), d |-> U.d,
                        lo |-> QMul(QAbs(r.v), U.v),
                        up |-> QMul(IF r.kind = "pos" THEN r.up ELSE QAbs(r.v), U.v),
                        open |-> r.kind = "pos"]

RECURSIVE SumQ(_, _, _, _)
SumQ(bs, f, i, acc) == IF i > Len(bs) THEN acc ELSE SumQ(bs, f, i + 1, QAdd(acc, IF f = "lo" THEN bs[i].lo ELSE bs[i].up))

SumLaw(ev, T, i) ==
  \E bs \in {[k \in DOMAIN ev.list |-> EntryBounds(ev, ev.list[k])]} :
  IF \E k \in DOMAIN bs : ~bs[k].ok THEN Say("UNSUPPORTED", i, "list", "sum")
  ELSE IF \E k \in DOMAIN bs : ~DEq(bs[k].d, T.d) THEN Say("REJECT", i, "list", "unit-dims")
  ELSE IF \E k \in DOMAIN bs : bs[k].sg # 0 /\ bs[k].sg # QSign(T.v) THEN Say("REJECT", i, "list", "sum")
  ELSE \E lo \in {SumQ(bs, "lo", 1, QZero)}, up \in {SumQ(bs, "up", 1, QZero)} :
       IF QLe(lo, QAbs(T.v)) /\ (QLt(QAbs(T.v), up) \/ (QEq(lo, QAbs(T.v)) /\ QEq(lo, up)))
       THEN TRUE ELSE Say("REJECT", i, "list", "sum")

(* ---- a reply ---- *)
OkVal(j) == [ok |-> TRUE, why |-> "", v |-> Q(j.v.n, j.v.d), d |-> DFromJson(j.d)]
Float == [ok |-> FALSE, why |-> "float", v |-> QOne, d |-> DEmpty]

\* the computed quantity of the reply: the separately evaluated source, else the reply's own raw value
Truth(ev) ==
  IF Has(ev, "truth") THEN (IF IsNum(ev.truth) THEN OkVal(ev.truth) ELSE Float)
  ELSE IF Has(ev, "main") /\ Has(ev.main, "raw") THEN (IF IsNum(ev.main.raw) THEN OkVal(ev.main.raw) ELSE Float)
  ELSE [ok |-> FALSE, why |-> "no-truth", v |-> QOne, d |-> DEmpty]

SelfTruth(ev, p) ==
  IF ~Has(p, "raw") THEN [ok |-> FALSE, why |-> "no-raw", v |-> QOne, d |-> DEmpty]
  ELSE IF ~IsNum(p.raw) THEN Float
  ELSE RawQuantity(ev, p.raw)

\* the one-line text of a conversion shows the factors of the structured reply: `* F` and `/ G`
HasSub(s, t) == \E k \in 1..(Len(s) - Len(t) + 1) : SubSeq(s, k, k + Len(t) - 1) = t
TextShowsFactors(ev, i) ==
  IF ~Has(ev, "plain") THEN TRUE
  ELSE /\ (IF Has(ev.main, "factor") /\ ~HasSub(ev.plain, <<42, 32>> \o ev.main.factor)
           THEN Say("REJECT", i, "main", "text-omits-factor") ELSE TRUE)
       /\ (IF Has(ev.main, "divfactor") /\ ~HasSub(ev.plain, <<47, 32>> \o ev.main.divfactor)
           THEN Say("REJECT", i, "main", "text-omits-divfactor") ELSE TRUE)

Verdict(ev, i) ==
  IF ev.kind = "crash" THEN PrintT(<<"CRASH", i>>)
  ELSE \E T \in {Truth(ev)} :
    /\ TextShowsFactors(ev, i)
    /\ (IF Has(ev, "main") /\ ev.kind # "subst"
        THEN CheckParts(ev, ev.main, T, TRUE, TRUE, TRUE, i, "main") ELSE TRUE)
    /\ (IF Has(ev, "main") /\ ev.kind = "subst"
        THEN CheckParts(ev, ev.main, SelfTruth(ev, ev.main), TRUE, TRUE, TRUE, i, "main") ELSE TRUE)
    /\ (IF Has(ev, "list")
        THEN /\ \A k \in DOMAIN ev.list :
                  \E Tk \in {SelfTruth(ev, ev.list[k])} :
                  CheckParts(ev, ev.list[k], Tk, FALSE, FALSE, FALSE, i, <<"list", k>>)
             /\ (IF T.ok THEN SumLaw(ev, T, i) ELSE Say("UNSUPPORTED", i, "list", T.why))
             /\ (IF T.ok /\ Has(ev, "rest") THEN QuantityOK(ev.rest, T, i, "rest") ELSE TRUE)
        ELSE TRUE)
    /\ (IF Has(ev, "props")
        THEN \A k \in DOMAIN ev.props :
               \E Tk \in {SelfTruth(ev, ev.props[k])} :
               CheckParts(ev, ev.props[k], Tk, TRUE, FALSE, TRUE, i, <<"prop", k>>)
        ELSE TRUE)

Init == l = 1
Next == l <= NRec /\ Verdict(Rec[l], l) /\ l' = l + 1
Spec == Init /\ [][Next]_l
=============================================================================
