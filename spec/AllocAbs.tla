------------------------------ MODULE AllocAbs ------------------------------
(***************************************************************************)
(* Property C19 as an abstract, atomic object: what a user of the          *)
(* allocator may rely on.  Every operation takes effect in one step; a     *)
(* refusal is a stuttering step (the property allows a refusal at any      *)
(* time: the wrapped allocator may fail, and concurrent operations hold    *)
(* transient charges).  Alloc.tla is checked to refine this module, and    *)
(* traces recorded from the real allocator are validated against it        *)
(* (Trace_AllocAbs.tla).                                                   *)
(***************************************************************************)
EXTENDS Integers, FiniteSets

CONSTANTS Limit, Sizes, Blocks

VARIABLES alive,   \* [Blocks -> Nat] size of each live block, 0 = none
          apeak    \* largest total since the last reset

RECURSIVE ASum(_, _)
ASum(f, D) == IF D = {} THEN 0
              ELSE LET x == CHOOSE y \in D : TRUE IN f[x] + ASum(f, D \ {x})
Total == ASum(alive, Blocks)
AMax2(a, b) == IF a >= b THEN a ELSE b

Init == alive = [b \in Blocks |-> 0] /\ apeak = 0

AbsAlloc(b, sz) ==
  /\ alive[b] = 0 /\ sz > 0
  /\ Total + sz <= Limit
  /\ alive' = [alive EXCEPT ![b] = sz]
  /\ apeak' = AMax2(apeak, Total + sz)

AbsFree(b) ==
  /\ alive[b] > 0
  /\ alive' = [alive EXCEPT ![b] = 0]
  /\ apeak' = apeak

AbsRealloc(b, nsz) ==
  /\ alive[b] > 0 /\ nsz > 0
  /\ Total - alive[b] + nsz <= Limit
  /\ alive' = [alive EXCEPT ![b] = nsz]
  /\ apeak' = AMax2(apeak, Total - alive[b] + nsz)

AbsReset == alive' = alive /\ apeak' = Total

Next == \/ \E b \in Blocks, sz \in Sizes : AbsAlloc(b, sz) \/ AbsRealloc(b, sz)
        \/ \E b \in Blocks : AbsFree(b)
        \/ AbsReset

Spec == Init /\ [][Next]_<<alive, apeak>>

\* a refused or failed operation: nothing changes
AbsRefuse == UNCHANGED <<alive, apeak>>

AbsWithinLimit == Total <= Limit
AbsPeak == apeak >= Total
=============================================================================
