SPECIFICATION Spec
CONSTANTS
  MaxUnits = 2
  MaxPrefixes = 1
  MaxLen = 4
  KindMode = "all"
  MaxAlias = 0
  MaxPAlias = 0
  MaxCollide = 0
  NN = {1, 2, 3, 4, 5, 6, 7, 8, 9, 10, 11, 12}
INVARIANTS Theorems Emit
CHECK_DEADLOCK FALSE
