------------------------------ MODULE Numeral ------------------------------
(***************************************************************************)
(* What a numeral printed by Rink DENOTES (properties C05, C06).           *)
(*                                                                         *)
(* This is a denotational specification: it reads a printed numeral back   *)
(* and says which rational it stands for.  It does not describe how the    *)
(* formatter finds its digits, so every formatter that prints truthful     *)
(* numerals is accepted.                                                   *)
(*                                                                         *)
(* Numeral grammar (text = sequence of code points, digits above 9 are     *)
(* the lower-case letters a..z):                                           *)
(*                                                                         *)
(*   numeral  ::= positional | fraction                                    *)
(*   positional ::= ["-"] digit+ ["." digit*] [block] [exponent]           *)
(*   block    ::= "[" digit+ [", period " dec+] "]..."   (needs the ".")   *)
(*   exponent ::= "e" ["-"] dec+          meaning  x base^N, N in decimal  *)
(*   fraction ::= ["-"] digit+ "/" digit+   numerator and denominator are  *)
(*                numerals of the reply's base like every other numeral    *)
(*                of the reply (C05: "in every base ... as a fraction ...  *)
(*                denotes exactly the computed rational"): `1/1000` in a   *)
(*                hexadecimal reply is 1/4096.  No exponent marker: in     *)
(*                `1/3e8` (base 16) the e is a digit.                      *)
(*                                                                         *)
(* "1." (a radix point with nothing behind it) is not a numeral.           *)
(*                                                                         *)
(* A block [d1..dm]... after k fraction digits stands for the geometric    *)
(* series  d1..dm / (base^m - 1) / base^k.                                 *)
(*                                                                         *)
(* In bases >= 15 the letter e is a digit and the exponent marker at the   *)
(* same time: "1e2" in base 16 is 0x1e2 or 1 x 16^2.  The ambiguity is the *)
(* output format's; Readings returns every reading and a numeral is        *)
(* accepted when one reading satisfies the rule.                           *)
(*                                                                         *)
(* A reading is  [v    : the rational denoted (BigNum Q, not reduced),     *)
(*                ulp  : one unit of the last printed digit, exponent      *)
(*                       included (zero for fractions),                    *)
(*                up   : |v| + ulp (for "pos"),                            *)
(*                kind : "pos" terminating | "rec" with block | "frac",    *)
(*                blk  : length of the block (0 if none),                  *)
(*                per  : the stated period, -1 if none]                    *)
(***************************************************************************)
EXTENDS BigNum, FiniteSets

ChMinus == 45
ChDot == 46
ChSlash == 47
ChComma == 44
ChLB == 91
ChE == 101
RecTail == <<93, 46, 46, 46>>                                  \* "]..."
PeriodWord == <<44, 32, 112, 101, 114, 105, 111, 100, 32>>     \* ", period "

Take(s, n) == SubSeq(s, 1, n)
Drop(s, n) == SubSeq(s, n + 1, Len(s))
PosOf(s, c) == {i \in DOMAIN s : s[i] = c}
TailIs(s, t) == Len(s) >= Len(t) /\ SubSeq(s, Len(s) - Len(t) + 1, Len(s)) = t
SetMin(S) == CHOOSE x \in S : \A y \in S : x <= y

DigitVal(c) == IF c >= 48 /\ c <= 57 THEN c - 48
               ELSE IF c >= 97 /\ c <= 122 THEN c - 87
               ELSE 99
AllDigits(s, b) == \A i \in DOMAIN s : DigitVal(s[i]) < b
DigitSeq(s) == [i \in DOMAIN s |-> DigitVal(s[i])]
IsDec(s) == s # <<>> /\ \A i \in DOMAIN s : s[i] >= 48 /\ s[i] <= 57

\* short decimal strings (exponents, periods) as native integers; at most 7 digits
RECURSIVE DecValC(_, _, _)
DecValC(s, i, acc) == IF i > Len(s) THEN acc ELSE DecValC(s, i + 1, acc * 10 + (s[i] - 48))
DecVal(s) == DecValC(s, 1, 0)
IsSignedDec(t) == IsDec(t) \/ (t # <<>> /\ t[1] = ChMinus /\ IsDec(Drop(t, 1)))
SignedDec(t) == IF t[1] = ChMinus THEN -DecVal(Drop(t, 1)) ELSE DecVal(t)

-----------------------------------------------------------------------------
(* digit sequences (values, most significant first) -> naturals, any base 2..36:
   as many digits per step as fit below the limb base *)
ChunkLen(b) == CHOOSE g \in 1..11 : b ^ g < B /\ b ^ (g + 1) >= B

RECURSIVE ChunkVal(_, _, _, _, _)
ChunkVal(ds, lo, hi, b, acc) == IF lo > hi THEN acc ELSE ChunkVal(ds, lo + 1, hi, b, acc * b + ds[lo])

RECURSIVE NDigitsC(_, _, _, _, _, _)
NDigitsC(ds, b, g, bg, i, acc) ==
  IF i > Len(ds) THEN acc
  ELSE NDigitsC(ds, b, g, bg, i + g, NMulAddSmall(acc, bg, ChunkVal(ds, i, i + g - 1, b, 0)))

NDigits(ds, b) ==
  CASE b = 2 -> NFromPow2Digits(ds, 1)
    [] b = 4 -> NFromPow2Digits(ds, 2)
    [] b = 8 -> NFromPow2Digits(ds, 3)
    [] b = 16 -> NFromPow2Digits(ds, 4)
    [] OTHER -> LET g == ChunkLen(b)
                    r == Len(ds) % g
                IN NDigitsC(ds, b, g, b ^ g, r + 1, NFromInt(ChunkVal(ds, 1, r, b, 0)))

\* base ^ k  (power-of-two bases: a shift; others: one small multiplication per ChunkLen digits)
RECURSIVE MulSmallTimes(_, _, _)
MulSmallTimes(acc, m, n) == IF n = 0 THEN acc ELSE MulSmallTimes(NMulSmall(acc, m), m, n - 1)

BasePow(b, k) ==
  CASE b = 2 -> NPow2(k)
    [] b = 4 -> NPow2(2 * k)
    [] b = 8 -> NPow2(3 * k)
    [] b = 16 -> NPow2(4 * k)
    [] b = 32 -> NPow2(5 * k)
    [] OTHER -> LET g == ChunkLen(b) IN MulSmallTimes(<<b ^ (k % g)>>, b ^ g, k \div g)

-----------------------------------------------------------------------------
(* syntax: sign and exponent removed, what is left is  ip [. fp] [block]  *)
BadMant == [ok |-> FALSE, ip |-> <<>>, fp |-> <<>>, blk |-> <<>>, per |-> -1]

HeadParse(head, b, blk, per) ==
  LET ds == PosOf(head, ChDot) IN
  IF Cardinality(ds) > 1 THEN BadMant
  ELSE LET dot == IF ds = {} THEN Len(head) + 1 ELSE CHOOSE i \in ds : TRUE
           ip == Take(head, dot - 1)
           fp == Drop(head, dot)
       IN IF \/ ip = <<>> \/ ~AllDigits(ip, b) \/ ~AllDigits(fp, b)
             \/ (blk # <<>> /\ ds = {})                      \* a block needs the radix point
             \/ (ds # {} /\ fp = <<>> /\ blk = <<>>)         \* "1."
          THEN BadMant
          ELSE [ok |-> TRUE, ip |-> ip, fp |-> fp, blk |-> blk, per |-> per]

MantParse(body, b) ==
  LET lbs == PosOf(body, ChLB) IN
  IF lbs = {} THEN HeadParse(body, b, <<>>, -1)
  ELSE IF Cardinality(lbs) # 1 \/ ~TailIs(body, RecTail) THEN BadMant
  ELSE LET lb == CHOOSE i \in lbs : TRUE
           inner == SubSeq(body, lb + 1, Len(body) - 4)
           cs == PosOf(inner, ChComma)
       IN IF cs = {}
          THEN (IF inner # <<>> /\ AllDigits(inner, b) THEN HeadParse(Take(body, lb - 1), b, inner, -1) ELSE BadMant)
          ELSE LET c == SetMin(cs)
                   blk == Take(inner, c - 1)
                   rest == Drop(inner, c - 1)
                   num == Drop(rest, 9)
               IN IF /\ blk # <<>> /\ AllDigits(blk, b)
                     /\ Len(rest) > 9 /\ Take(rest, 9) = PeriodWord
                     /\ IsDec(num) /\ Len(num) <= 7
                  THEN HeadParse(Take(body, lb - 1), b, blk, DecVal(num))
                  ELSE BadMant

\* positions of an "e" that can be read as the exponent marker
ExpSplits(s) ==
  {k \in PosOf(s, ChE) : k > 1 /\ k < Len(s) /\ IsSignedDec(Drop(s, k)) /\ Len(s) - k <= 8}

-----------------------------------------------------------------------------
(* meaning *)
MkReading(neg, nmag, d, upn, ulp, kind, blk, per) ==
  [v |-> Q(Z(neg, nmag), d), up |-> Q(Z(FALSE, upn), d), ulp |-> ulp, kind |-> kind, blk |-> blk, per |-> per]

\* m: parsed mantissa, e: exponent.  The last fraction digit has weight base^s, s = e - Len(fp).
\* `up` is the magnitude of the next numeral of the same length, |v| + ulp, over the same denominator
\* (comparing with it avoids multiplying two long numbers).
\* Every expensive value is bound once (set constructor over singletons).
MantReadings(m, neg, e, b) ==
  LET s == e - Len(m.fp)
      sa == IF s < 0 THEN -s ELSE s
  IN IF m.blk = <<>>
     THEN { MkReading(neg, IF s >= 0 THEN NMul(A, S) ELSE A, IF s >= 0 THEN <<1>> ELSE S,
                      IF s >= 0 THEN NAdd(NMul(A, S), S) ELSE NAddSmall(A, 1),
                      IF s >= 0 THEN Q(Z(FALSE, S), <<1>>) ELSE Q(ZOne, S), "pos", 0, m.per)
            : A \in {NDigits(DigitSeq(m.ip \o m.fp), b)}, S \in {BasePow(b, sa)} }
     ELSE { MkReading(neg,
                      IF s >= 0 THEN NMul(NAdd(NMul(A, M), Bk), S) ELSE NAdd(NMul(A, M), Bk),
                      IF s >= 0 THEN M ELSE NMul(M, S), <<>>,
                      IF s >= 0 THEN Q(Z(FALSE, S), <<1>>) ELSE Q(ZOne, S), "rec", Len(m.blk), m.per)
            : A \in {NDigits(DigitSeq(m.ip \o m.fp), b)}, S \in {BasePow(b, sa)},
              Bk \in {NDigits(DigitSeq(m.blk), b)}, M \in {NSub(BasePow(b, Len(m.blk)), <<1>>)} }

\* the reading of s with the exponent marker at position k (0: no exponent)
SplitReadings(s, k, b) ==
  LET neg == s[1] = ChMinus
      mant == IF k = 0 THEN s ELSE Take(s, k - 1)
      body == IF neg THEN Drop(mant, 1) ELSE mant
  IN IF body = <<>> THEN {}
     ELSE LET m == MantParse(body, b) IN
          IF ~m.ok THEN {} ELSE MantReadings(m, neg, IF k = 0 THEN 0 ELSE SignedDec(Drop(s, k)), b)

PosReadings(s, b) == UNION {SplitReadings(s, k, b) : k \in ExpSplits(s) \cup {0}}

\* p/q: numerator and denominator are numerals of base b
FracIn(neg, ps, qs, b) ==
  IF ps = <<>> \/ qs = <<>> \/ ~AllDigits(ps, b) \/ ~AllDigits(qs, b) THEN {}
  ELSE { MkReading(neg, P, D, <<>>, QZero, "frac", 0, -1)
         : P \in {NDigits(DigitSeq(ps), b)}, D \in {NDigits(DigitSeq(qs), b)} \ {<<>>} }

FracReadings(s, b) ==
  LET neg == s[1] = ChMinus
      body == IF neg THEN Drop(s, 1) ELSE s
      sl == PosOf(body, ChSlash)
  IN IF Cardinality(sl) # 1 THEN {}
     ELSE LET k == CHOOSE i \in sl : TRUE
              ps == Take(body, k - 1)
              qs == Drop(body, k)
          IN FracIn(neg, ps, qs, b)

Readings(s, b) ==
  IF s = <<>> THEN {}
  ELSE IF PosOf(s, ChSlash) # {} THEN FracReadings(s, b)
  ELSE PosReadings(s, b)

\* the set of rationals a printed numeral can denote
Denote(chars, base) == {r.v : r \in Readings(chars, base)}
\* one unit of the last printed digit, per reading
Ulp(chars, base) == {r.ulp : r \in Readings(chars, base)}

-----------------------------------------------------------------------------
(* the rules of C05 on a set of readings *)
ExactR(r, v) == QEq(r.v, v)

\* v truncated toward zero at the last printed digit: same sign (or zero), not larger in magnitude,
\* and less than one unit of the last digit away.  Only a terminating positional numeral can be that.
TruncR(r, v) ==
  /\ r.kind = "pos"
  /\ (QSign(r.v) = 0 \/ QSign(r.v) = QSign(v))
  /\ QLe(QAbs(r.v), QAbs(v))
  /\ QLt(QAbs(v), r.up)                       \* |v| - |numeral| < ulp

\* shown behind `approx.`: a truncation that really is not the value itself
StrictR(r, v) == TruncR(r, v) /\ ~QEq(r.v, v)

ExactIn(rs, v) == \E r \in rs : ExactR(r, v)
ApproxIn(rs, v) == \E r \in rs : TruncR(r, v)
StrictIn(rs, v) == \E r \in rs : StrictR(r, v)
\* a stated period is the length of the bracketed block
PeriodIn(rs) == \A r \in rs : r.per = -1 \/ r.per = r.blk
\* exact, or a truncation toward zero by less than one unit of the last digit (unmarked list entries)
WithinIn(rs, v) == ExactIn(rs, v) \/ ApproxIn(rs, v)

-----------------------------------------------------------------------------
(* The same rules on the text, reading by reading.  In bases >= 15 a numeral such as 0.f3e8209 has,
   besides its plain reading, the reading 0.f3 x base^8209, whose value costs minutes to compute.  The
   operators below take the readings one at a time - fractions; else the reading without exponent, then
   one per exponent marker - and stop at the first that satisfies the rule (TLC enumerates a set of
   integers in increasing order and leaves an \E at the first witness); syntax questions need no arithmetic. *)
IsFracText(s) == PosOf(s, ChSlash) # {}
Splits(s) == {0} \cup ExpSplits(s)

SplitSyntax(s, k, b) ==
  LET mant == IF k = 0 THEN s ELSE Take(s, k - 1)
      body == IF s[1] = ChMinus THEN Drop(mant, 1) ELSE mant
  IN IF body = <<>> THEN BadMant ELSE MantParse(body, b)

SomeReading(s, b, P(_)) ==
  IF s = <<>> THEN FALSE
  ELSE IF IsFracText(s) THEN \E r \in FracReadings(s, b) : P(r)
  ELSE \E k \in Splits(s) : \E r \in SplitReadings(s, k, b) : P(r)

(* A formatter gone wrong prints digit salad, and in bases >= 15 some of it ends in "e1234567": the reading
   mantissa x base^1234567 can never be the value or its truncation, but computing it would take hours.  A reading
   with an exponent marker is therefore weighed first, in bits, without any long arithmetic.  With I integer
   digits, G fraction and block digits, exponent E and a mantissa that is not all zeros,
       base^(E-G) <= |reading| < base^(I+E)   and   ulp <= base^(E-F) <= base^(I+E),
   and both Exact and Trunc need |reading| <= |v| < |reading| + ulp, hence
       (E-G) * log2(base) <= log2|v| < 1 + (I+E) * log2(base).
   log2|v| lies strictly between 12 * (limbs(n) - limbs(d) - 1) and 12 * (limbs(n) - limbs(d) + 1);
   log2(base) between FloorLog2 and CeilLog2.  A reading outside these bounds satisfies none of the rules, so
   leaving it out does not change any verdict. *)
RECURSIVE TopLimb(_, _)
TopLimb(a, i) == IF i = 0 THEN 0 ELSE IF a[i] # 0 THEN i ELSE TopLimb(a, i - 1)
FloorLog2(b) == CHOOSE f \in 1..5 : 2 ^ f <= b /\ b < 2 ^ (f + 1)
CeilLog2(b) == CHOOSE f \in 1..6 : 2 ^ (f - 1) < b /\ b <= 2 ^ f
LogLow(x, b) == IF x >= 0 THEN x * FloorLog2(b) ELSE x * CeilLog2(b)      \* <= x * log2(b)
LogHigh(x, b) == IF x >= 0 THEN x * CeilLog2(b) ELSE x * FloorLog2(b)     \* >= x * log2(b)
AllZeroDigits(t) == \A i \in DOMAIN t : t[i] = 48

Plausible(v, s, k, b) ==
  LET m == SplitSyntax(s, k, b) IN
  IF ~m.ok THEN FALSE                                   \* no reading at all
  ELSE IF QIsZero(v) \/ AllZeroDigits(m.ip \o m.fp \o m.blk) THEN TRUE
  ELSE LET e == SignedDec(Drop(s, k))
           bits == 12 * (TopLimb(v.n.mag, Len(v.n.mag)) - TopLimb(v.d, Len(v.d)))
       IN /\ LogLow(e - Len(m.fp) - Len(m.blk), b) < bits + 12
          /\ bits - 12 < 1 + LogHigh(Len(m.ip) + e, b)

\* SomeReading for the rules that compare with a value v (P(r) implies ExactR(r, v) \/ TruncR(r, v))
SomeReadingOf(v, s, b, P(_)) ==
  IF s = <<>> THEN FALSE
  ELSE IF IsFracText(s) THEN \E r \in FracReadings(s, b) : P(r)
  ELSE \E k \in Splits(s) : (k = 0 \/ Plausible(v, s, k, b)) /\ \E r \in SplitReadings(s, k, b) : P(r)

Supported(s, b) ==
  /\ s # <<>>
  /\ IF IsFracText(s) THEN FracReadings(s, b) # {} ELSE \E k \in Splits(s) : SplitSyntax(s, k, b).ok

\* a well-formed numeral that uses digits the base does not have (`255/9` in an octal reply, a fraction
\* written in decimal next to hexadecimal digits): it denotes nothing in base b, whatever the rule
WrongBase(s, b) == ~Supported(s, b) /\ Supported(s, 36)

ExactOK(v, s, b) == SomeReadingOf(v, s, b, LAMBDA r : ExactR(r, v))
ApproxOK(v, s, b) == SomeReadingOf(v, s, b, LAMBDA r : TruncR(r, v))
StrictOK(v, s, b) == SomeReadingOf(v, s, b, LAMBDA r : StrictR(r, v))
WithinOK(v, s, b) == SomeReadingOf(v, s, b, LAMBDA r : ExactR(r, v) \/ TruncR(r, v))
PeriodOK(s, b) ==
  s = <<>> \/ IsFracText(s)
  \/ \A k \in Splits(s) : LET m == SplitSyntax(s, k, b) IN m.ok => (m.per = -1 \/ m.per = Len(m.blk))
=============================================================================
