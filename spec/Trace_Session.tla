---------------------------- MODULE Trace_Session ----------------------------
(***************************************************************************)
(* Validates executions of the real stateful entry point rink_core::eval   *)
(* (recorded by rv-eval on long-lived contexts) against Session.           *)
(* Lines:                                                                  *)
(*   reset  the harness forgot the previous answer (new history); `db` is  *)
(*          the digest of the context at that moment when it was measured  *)
(*   step   one call: query id, plain?, reply kind, digest of the reply,   *)
(*          digest of its raw value, digest of previous_result afterwards, *)
(*          and - on sampled steps - the digests of registry, load-time    *)
(*          scratch names and the settings afterwards                      *)
(*   fresh  the same query on a FRESH context whose previous_result was    *)
(*          preset to a0                                                   *)
(* The trace is accepted iff every line is a Session step:                 *)
(*   AnsRule  previous_result afterwards = AnsAfter(flag, before, q, reply)*)
(*   DbConst  registry digest, scratch names, settings never change; the    *)
(*            clock holds the time the call began (set by the wrapper)     *)
(*   Purity   equal (query, previous answer) => equal reply digest, within *)
(*            the long-lived run and against the fresh context             *)
(* A refused line prints <<"WHY", line, clause>>.                          *)
(***************************************************************************)
EXTENDS TraceLib, FiniteSets

VARIABLES l, db, ans, save, settings, seen, last

TraceSave == Rec[1].save
StepLines == {i \in 1..NRec : Rec[i].ev = "step"}
PlainQ == {Rec[i].q : i \in {j \in StepLines : Rec[j].plain}}
TraceQueries == {Rec[i].q : i \in StepLines}
NoReply(q, a) == [kind |-> "unobserved", raw |-> "none", rd |-> "none"]
TracePlain(q) == q \in PlainQ

S == INSTANCE Session WITH Queries <- TraceQueries, NoAns <- "none", Reply <- NoReply, Plain <- TracePlain

ObsReply(e) == [kind |-> e.kind, raw |-> e.raw, rd |-> e.rd]

\* (IF, not \/: inside an action TLC explores both sides of a disjunction)
Check(c, why) == IF c THEN TRUE ELSE PrintT(<<"WHY", l, why>>) /\ FALSE

\* no earlier observation of the same (query, previous answer) gave another reply
Pure(q, a, r) == \A x \in seen : (x[1] = q /\ x[2] = a) => x[3] = r

TInit == /\ l = 1 /\ db = Rec[1].db /\ ans = "none" /\ save = TraceSave
         /\ settings = <<FALSE, TraceSave>> /\ seen = {} /\ last = ""

TReset ==
  /\ l <= NRec /\ Rec[l].ev = "reset"
  /\ Check(Rec[l].db = "" \/ Rec[l].db = db, "dbconst")
  /\ ans' = "none"
  /\ UNCHANGED <<db, save, settings, seen, last>>
  /\ l' = l + 1

TStep ==
  /\ l <= NRec /\ Rec[l].ev = "step"
  /\ LET e == Rec[l] r == ObsReply(e) IN
     /\ Check(Pure(e.q, ans, r), "purity")
     /\ S!Step(e.q, r)                                 \* ans', db', save', settings', seen', last'
     /\ Check(ans' = e.ans, "ansrule")
     /\ Check(e.db = "" \/ (e.db = db /\ e.tmp = "{}" /\ e.settings = settings), "dbconst")
     /\ Check(e.clock, "clock")        \* ctx.now is the time rink_core::eval set when the call began
  /\ l' = l + 1

TFresh ==
  /\ l <= NRec /\ Rec[l].ev = "fresh"
  /\ LET e == Rec[l] r == ObsReply(e) IN
     /\ Check(Pure(e.q, e.a0, r), "fresh")
     /\ Check(S!AnsAfter(save, e.a0, e.q, r) = e.ans, "fresh-ansrule")
     /\ Check(e.db = db /\ e.tmp = "{}", "fresh-db")
  /\ UNCHANGED <<db, ans, save, settings, seen, last>>
  /\ l' = l + 1

TNext == TReset \/ TStep \/ TFresh
TSpec == TInit /\ [][TNext]_<<l, db, ans, save, settings, seen, last>>

Reached == Mark(l)
=============================================================================
