SPECIFICATION Spec
CONSTANTS
  MaxUnits = 2
  MaxPrefixes = 2
  MaxLen = 4
  KindMode = "all"
  MaxAlias = 0
INVARIANTS Theorems Emit
CHECK_DEADLOCK FALSE
