---------------------------- MODULE MC_AllocSched ----------------------------
(***************************************************************************)
(* Schedule generator for C19: behaviours of Alloc.tla with a history of   *)
(* which thread took which atomic step.  Run in simulation mode; every     *)
(* completed behaviour prints one SCHED line that the harness replays      *)
(* through the schedule points of sandbox/src/alloc.rs.                    *)
(***************************************************************************)
EXTENDS Alloc, Json

VARIABLE sched

SThreads2 == {1, 2}
SThreads3 == {1, 2, 3}

Mover == CHOOSE t \in Threads : pc'[t] # pc[t]

SInit == Init /\ sched = <<>>
SNext == /\ Next
         /\ sched' = Append(sched, [t |-> Mover, at |-> pc[Mover],
                                     op |-> loc'[Mover].op, size |-> loc'[Mover].size,
                                     blk |-> loc'[Mover].blk, old |-> loc'[Mover].old])
SSpec == SInit /\ [][SNext]_<<vars, sched>>

AllDone == Quiescent /\ \A t \in Threads : ops[t] = MaxOps

EmitSched ==
  AllDone => PrintT(<<"SCHED", ToJson([limit |-> Limit, steps |-> sched, results |-> hist,
                                        used |-> used, max |-> max, usage |-> LiveTotal,
                                        peak_min |-> peakLive, live |-> live])>>)
=============================================================================
