CONSTANTS
  MaxReq = 3
  Kinds <- EnvAll
  GapKinds <- Gaps01
  UniformGaps = FALSE
  PipeCap = 2
  BigChunks = 3
  BreakOutAfterPanic = TRUE
  DrainAbandoned = TRUE
  RespawnOnEpipe = TRUE
CHECK_DEADLOCK FALSE
SPECIFICATION Spec
INVARIANTS TypeOK OneReplyEach OwnReply Isolation NoStale ViewSound GenPattern
