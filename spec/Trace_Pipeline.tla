---------------------------- MODULE Trace_Pipeline ----------------------------
(***************************************************************************)
(* Validates executions of the whole request pipeline (rv-eval with        *)
(* render = true: lex, parse, evaluate, plain text, span tree, JSON) on a  *)
(* long-lived context against Pipeline.tla.  One line per request; a line  *)
(* is matched by the sequence Submit, DoParse, Evaluate, RenderText,       *)
(* RenderSpans, RenderJson, Finish - or, for an expensive input only, by   *)
(* GiveUp.  A panic / abort / stack overflow matches nothing: REJECT.      *)
(***************************************************************************)
EXTENDS Pipeline, TLC, Json, IOUtils

Rec == ndJsonDeserialize(IOEnv.TRACE)
NRec == Len(Rec)
VARIABLE l

OomText(s) == s = "oom"

Verdict(ev, i) ==
  IF ev.obs.t # "crash"
  THEN \* a reply or an error value, and all three renderings were produced
       IF ev.rendered THEN TRUE ELSE PrintT(<<"REJECT", i, "a rendering is missing">>)
  ELSE IF ev.obs.c = "panic" THEN PrintT(<<"REJECT", i, "panic">>)
  ELSE IF ev.obs.c = "abort" /\ ~OomText(ev.obs.why) THEN PrintT(<<"REJECT", i, "abort">>)
  ELSE \* stopped by the watchdog or by the memory limit: only expensive inputs may be
       IF ~Supported(ev.q) THEN PrintT(<<"UNSUPPORTED", i>>)
       ELSE IF ExpensiveText(ev.q) THEN PrintT(<<"NOTE", i, "expensive input stopped">>)
       ELSE PrintT(<<"REJECT", i, "a cheap input did not finish">>)

\* the stage machine accepts the line: composite step (the stages are not observable one by one)
Init == l = 1 /\ PInit
Next == /\ l <= NRec /\ Verdict(Rec[l], l) /\ l' = l + 1
        /\ stage' = "idle" /\ req' = Rec[l].q
        /\ outcome' = IF Rec[l].obs.t = "crash" THEN "stopped" ELSE IF Rec[l].obs.t = "err" THEN "error" ELSE "reply"
Spec == Init /\ [][Next]_<<l, stage, req, outcome>>
=============================================================================
