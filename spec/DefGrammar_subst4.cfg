SPECIFICATION Spec
INVARIANT Emit
CHECK_DEADLOCK FALSE
CONSTANTS
  Tokens <- AlphaSubst
  Prefix <- PreSubst
  Suffix <- SufSubst
  MaxLen = 4
