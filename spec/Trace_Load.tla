------------------------------ MODULE Trace_Load ------------------------------
(***************************************************************************)
(* C13 as the property states it, over recorded executions of the real     *)
(* loader (rv-load jobs): every line is one load of a text as a            *)
(* definitions file (k = "defs"), of a JSON text as currency data          *)
(* (k = "currency") or of a text as a date pattern file (k = "dates"):     *)
(*   [k, o |-> "ok" | "err" | "crash", n |-> number of messages,           *)
(*    e |-> the error text was empty, s |-> `1 + 1` answered 2 afterwards, *)
(*    m |-> a name that did load evaluated afterwards (TRUE if none did),  *)
(*    c |-> a dependency cycle was built into the text, r |-> a cycle was  *)
(*    reported]                                                            *)
(* The loader has two outcomes, and after either the context answers:      *)
(*   LoadOk   no problem found, nothing reported                           *)
(*   LoadErr  problems found, each reported as a message                   *)
(* A panic, an abort (stack overflow) or a hang matches neither action.    *)
(* A text with a dependency cycle can only take LoadErr, with the cycle    *)
(* among the messages.  Lines are independent: a rejected line is printed  *)
(* (REJECT) and judging continues.                                         *)
(***************************************************************************)
EXTENDS Integers, Sequences, TLC, Json, IOUtils

Rec == ndJsonDeserialize(IOEnv.TRACE)
NRec == Len(Rec)

VARIABLE l

\* the context answers about what did load - and only about that: a name whose definition failed or was never
\* given must not answer (ev.p: some such name answered)
Answers(ev) == ev.s /\ ev.m /\ ~ev.p
LoadOk(ev) == ev.o = "ok" /\ ev.n = 0 /\ ~ev.c /\ Answers(ev)
LoadErr(ev) == ev.o = "err" /\ ev.n >= 1 /\ ~ev.e /\ (ev.c => ev.r) /\ Answers(ev)

Verdict(ev, i) == IF LoadOk(ev) \/ LoadErr(ev) THEN TRUE ELSE PrintT(<<"REJECT", i>>)

Init == l = 1
Next == l <= NRec /\ Verdict(Rec[l], l) /\ l' = l + 1
Spec == Init /\ [][Next]_l
=============================================================================
