---------------------------- MODULE Trace_Cache ----------------------------
(***************************************************************************)
(* Validates the file-system calls of a real `rink` run (strace, paths     *)
(* classified as cache / temp / other by the check) against Cache.tla.     *)
(* A file holds one or more recorded runs; each starts with a `meta` line  *)
(* (prior cache state, what the fault server was told to do, entry point,  *)
(* body lengths in bytes) and ends with `exit` or `killed`.                *)
(*                                                                         *)
(* Every call that can change the cache file must be an action of          *)
(* Cache.tla, enabled in the state the earlier calls led to:               *)
(*   open(temp, O_CREAT..)   CreateTemp        write(temp, n)  WriteChunk(n)*)
(*   rename(temp -> cache)   Persist           unlink(temp)    DropTemp     *)
(*   SIGKILL                 Crash                                          *)
(* There is NO action for: a write to the cache path, an open of it with   *)
(* O_WRONLY/O_RDWR/O_TRUNC/O_CREAT/O_APPEND, its unlink, a rename away     *)
(* from it or onto it from anything but the temp file - and Persist is     *)
(* enabled only after TransferEnds("ok") (every byte the server sent was   *)
(* written to the temp file), CheckStatus with status 200 and Validate:    *)
(* the temp file holds the COMPLETE new body (a close-delimited answer cut *)
(* short ends "ok" for the client, but its bytes are not the document).    *)
(* Such a line is therefore rejected.                                      *)
(*                                                                         *)
(* What the property leaves free is free here: decisions that are not      *)
(* file-system calls are internal steps (ReadIfCurrent, TransferEnds,      *)
(* CheckStatus, Validate, FallbackStale, Load, Sync); reads, fsyncs, calls on other *)
(* paths and removal of temp files are always accepted; the code may       *)
(* refresh although the cache is fresh (RefreshAnyway), may give up a      *)
(* complete download (GiveUp) and may leave the temp file behind.          *)
(***************************************************************************)
EXTENDS TraceLib

VARIABLES l, prior, server, entry, cache, age, tmp, litter, pc, run, sent, status, refresh, used,
          fellback, started, r1

cvars == <<prior, server, entry, cache, age, tmp, litter, pc, run, sent, status, refresh, used, fellback, started, r1>>

C == INSTANCE Cache WITH NewLen <- Rec[1].newlen, ErrLen <- Rec[1].errlen,
                         Cuts <- {}, Codes <- {}, ChunkSizes <- {},
                         NetMayFail <- TRUE, MayLeaveLitter <- TRUE, CloseDelimited <- TRUE,
                         WriteInPlace <- FALSE, PersistBeforeStatusCheck <- FALSE,
                         TruncatedIsSuccess <- FALSE, SkipValidation <- FALSE, FixedTempName <- FALSE,
                         NoStaleFallback <- FALSE, AbortOnRefreshError <- FALSE

MetaServer(m) == [mode |-> m.mode, k |-> m.k, code |-> m.code]

Has(e, f) == \E i \in DOMAIN e.flags : e.flags[i] = f
Mutating(e) == \E f \in {"O_WRONLY", "O_RDWR", "O_TRUNC", "O_CREAT", "O_APPEND"} : Has(e, f)

TInit == /\ l = 2
         /\ Rec[1].ev = "meta"
         /\ C!InitWith(Rec[1].prior, MetaServer(Rec[1]), Rec[1].entry)

Skip == UNCHANGED cvars

\* --- trace-only freedom (see the header) ---
RefreshAnyway ==
  /\ pc = "cached" /\ pc' = "download"
  /\ UNCHANGED <<prior, server, entry, cache, age, tmp, litter, run, sent, status, refresh, used, fellback, started, r1>>
GiveUp ==
  /\ pc \in {"status", "validate", "sync", "persist"} /\ pc' = "drop" /\ refresh' = "failed"
  /\ UNCHANGED <<prior, server, entry, cache, age, tmp, litter, run, sent, status, used, fellback, started, r1>>

Internal ==
  /\ l' = l
  /\ \/ C!ReadIfCurrent \/ RefreshAnyway
     \/ C!TransferEnds("ok") \/ C!TransferEnds("err")
     \/ C!CheckStatus \/ C!Validate \/ C!Sync \/ GiveUp
     \/ C!AbandonTemp \/ C!FallbackStale \/ C!Load

Event ==
  /\ l <= NRec
  /\ l' = l + 1
  /\ LET e == Rec[l] IN
     CASE e.ev = "meta" ->
            /\ pc \in {"done", "crashed"}
            /\ C!Restart(e.prior, MetaServer(e), e.entry)
       [] e.ev = "open" ->
            IF e.path_class = "cache"
            THEN /\ ~Mutating(e)                                   \* no action opens the cache for writing
                 /\ e.ok = (cache.kind # "absent")                 \* the model's idea of the file agrees
                 /\ Skip
            ELSE IF e.path_class = "temp" /\ e.ok /\ Has(e, "O_CREAT")
                 THEN C!CreateTemp
                 ELSE Skip
       [] e.ev = "write" ->
            IF e.path_class = "temp" THEN C!WriteChunk(e.n)
            ELSE e.path_class = "other" /\ Skip                    \* no action writes to the cache path
       [] e.ev = "fsync" -> Skip
       [] e.ev = "rename" ->
            IF e.path_class = "cache" \/ e.src = "cache"
            THEN e.path_class = "cache" /\ e.src = "temp" /\ C!Persist
            ELSE Skip
       [] e.ev = "unlink" ->
            IF e.path_class = "temp" THEN C!DropTemp \/ Skip
            ELSE e.path_class = "other" /\ Skip                    \* no action removes the cache file
       [] e.ev = "exit" -> pc = "done" /\ Skip
       [] e.ev = "killed" -> C!Crash \/ (pc = "done" /\ Skip)
       [] OTHER -> FALSE

TNext == Event \/ Internal
TSpec == TInit /\ [][TNext]_<<l, cvars>>

Reached == Mark(l)
=============================================================================
