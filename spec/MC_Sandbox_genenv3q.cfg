CONSTANTS
  MaxReq = 3
  Kinds <- EnvQuick
  GapKinds <- Gaps01
  UniformGaps = TRUE
  PipeCap = 2
  BigChunks = 3
  BreakOutAfterPanic = TRUE
  DrainAbandoned = TRUE
  RespawnOnEpipe = TRUE
CHECK_DEADLOCK FALSE
SPECIFICATION Spec
INVARIANTS OneReplyEach OwnReply Isolation NoStale GenPattern EmitCase
