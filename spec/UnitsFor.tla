------------------------------ MODULE UnitsFor ------------------------------
(***************************************************************************)
(* Property C17: `units for X` and `factorize X` over a registry.          *)
(*                                                                         *)
(* reg = [units : set of [name, d : Dim, alias : BOOLEAN, cat],            *)
(*        base  : set of [name, long, cat, longcat],    (long = <<>>: none)*)
(*        quant : quantity name -> Dim]                                    *)
(* cat is the display name of the unit's category, or NoCat.               *)
(*                                                                         *)
(* `units for X` lists exactly the non-alias units of X's dimensionality,  *)
(* each once, each under its own category.  A base unit is not a member of *)
(* `units` under its short name, and its long name is recorded as an alias *)
(* of the short one; base units are nevertheless units whose               *)
(* dimensionality is their own, so when X is exactly one base unit to the  *)
(* first power the listing MUST contain that base unit under one of its    *)
(* names (short or long, under the category of either name or under none): *)
(* `units for length` without the metre would have a unit of X's           *)
(* dimensionality missing.  For every other X nothing else may be listed.  *)
(*                                                                         *)
(* `factorize X`: every product multiplies out to X's dimensionality; no   *)
(* product occurs twice.                                                   *)
(***************************************************************************)
EXTENDS Dim

NoCat == <<-1>>

Required(reg, d) == {<<u.cat, u.name>> : u \in {x \in reg.units : ~x.alias /\ DEq(x.d, d)}}

Optional(reg, d) ==
  UNION {{<<c, n>> : c \in {b.cat, b.longcat, NoCat}, n \in {b.name, b.long} \ {<<>>}} :
           b \in {x \in reg.base : DEq(d, DBase(x.name))}}

\* listed: sequence of <<category, unit name>> in the order of the reply
Names(S) == {p[2] : p \in S}
ListedSet(listed) == {listed[i] : i \in DOMAIN listed}

EachOnce(listed) == \A i, j \in DOMAIN listed : listed[i][2] = listed[j][2] => i = j
\* the base unit itself, when X is exactly that base unit to the first power
BaseListed(reg, d, listed) ==
  \A b \in reg.base : DEq(d, DBase(b.name)) => \E p \in ListedSet(listed) : p[2] \in ({b.name, b.long} \ {<<>>})
NoneMissing(reg, d, listed) == Names(Required(reg, d)) \subseteq Names(ListedSet(listed)) /\ BaseListed(reg, d, listed)
NoneForeign(reg, d, listed) == Names(ListedSet(listed)) \subseteq Names(Required(reg, d) \cup Optional(reg, d))
OwnCategory(reg, d, listed) ==
  \A p \in ListedSet(listed) : p[2] \in Names(Required(reg, d) \cup Optional(reg, d)) => p \in Required(reg, d) \cup Optional(reg, d)

UnitsForOK(reg, d, listed) ==
  /\ EachOnce(listed)
  /\ Required(reg, d) \subseteq ListedSet(listed)
  /\ BaseListed(reg, d, listed)
  /\ ListedSet(listed) \subseteq Required(reg, d) \cup Optional(reg, d)

\* the conjunction of the four diagnostics is the law
THEOREM \A reg, d, listed :
  UnitsForOK(reg, d, listed) <=> /\ EachOnce(listed) /\ NoneMissing(reg, d, listed)
                                 /\ NoneForeign(reg, d, listed) /\ OwnCategory(reg, d, listed)

-----------------------------------------------------------------------------
\* a product: sequence of [u : quantity name, e : count]
RECURSIVE ProductDimsFrom(_, _, _)
ProductDimsFrom(reg, p, i) ==
  IF i > Len(p) THEN DEmpty ELSE DMul(DPow(reg.quant[p[i].u], p[i].e), ProductDimsFrom(reg, p, i + 1))
ProductDims(reg, p) == ProductDimsFrom(reg, p, 1)

ProductKnown(reg, p) ==
  /\ \A i \in DOMAIN p : p[i].u \in DOMAIN reg.quant /\ p[i].e >= 1
  /\ \A i, j \in DOMAIN p : p[i].u = p[j].u => i = j
ProductSound(reg, d, p) == ProductKnown(reg, p) /\ DEq(ProductDims(reg, p), d)

\* products as sets, so that the order of the factors does not matter
AsSet(p) == {<<p[i].u, p[i].e>> : i \in DOMAIN p}
NoDuplicateProducts(list) == \A i, j \in DOMAIN list : AsSet(list[i]) = AsSet(list[j]) => i = j

FactorizeOK(reg, d, list) ==
  /\ \A i \in DOMAIN list : ProductSound(reg, d, list[i])
  /\ NoDuplicateProducts(list)
=============================================================================
