------------------------------- MODULE Grammar -------------------------------
(***************************************************************************)
(* The query grammar (core/src/parsing/text_query.rs:471-913): one         *)
(* operator per rung of the precedence ladder                              *)
(*   eq > add > div > juxt > frac > pow > suffix > term                    *)
(* Each P* operator takes the token sequence and a position and returns    *)
(* <<ast, next position>>.  ASTs mirror the public Expr / Query enums.     *)
(***************************************************************************)
EXTENDS Lexer, BigNum, Words, TzNames

Peek(ts, p) == IF p <= Len(ts) THEN ts[p] ELSE [k |-> "eof"]

(* ---- AST constructors ---- *)
Const(v) == [k |-> "const", v |-> v]
Huge == [k |-> "huge"]                      \* a literal too large for the specification to evaluate
Unit(n) == [k |-> "unit", name |-> n]
Quote(s) == [k |-> "quote", s |-> s]
DateLit(toks) == [k |-> "date", toks |-> toks]
Bin(op, l, r) == [k |-> "bin", op |-> op, l |-> l, r |-> r]
Un(op, e) == [k |-> "un", op |-> op, e |-> e]
Mul(es) == [k |-> "mul", es |-> es]
NewMul(es) == IF Len(es) = 1 THEN es[1] ELSE Mul(es)
Of(prop, e) == [k |-> "of", prop |-> prop, e |-> e]
Call(f, args) == [k |-> "call", f |-> f, args |-> args]
ErrNode == [k |-> "err"]

FunctionOf(id) ==
  CASE id = W_sqrt -> "sqrt" [] id = W_exp -> "exp" [] id = W_ln -> "ln" [] id = W_log2 -> "log2"
    [] id = W_log10 -> "log10" [] id = W_sin -> "sin" [] id = W_cos -> "cos" [] id = W_tan -> "tan"
    [] id = W_asin -> "asin" [] id = W_acos -> "acos" [] id = W_atan -> "atan" [] id = W_sinh -> "sinh"
    [] id = W_cosh -> "cosh" [] id = W_tanh -> "tanh" [] id = W_asinh -> "asinh" [] id = W_acosh -> "acosh"
    [] id = W_atanh -> "atanh" [] id = W_log -> "log" [] id = W_hypot -> "hypot" [] id = W_atan2 -> "atan2"
    [] OTHER -> "none"

AttrOf(id) ==
  CASE id = W_int \/ id = W_international -> W_int
    [] id = W_UKSJJ -> W_UKSJJ [] id = W_UKB -> W_UKB [] id = W_UKC -> W_UKC [] id = W_UKK -> W_UKK
    [] id = W_imperial \/ id = W_british \/ id = W_UK -> W_br
    [] id = W_survey \/ id = W_geodetic -> W_survey
    [] id = W_irish -> W_irish
    [] id = W_aust \/ id = W_australian -> W_aust
    [] id = W_roman -> W_roman [] id = W_egyptian -> W_egyptian [] id = W_greek -> W_greek
    [] id = W_olympic -> W_olympic
    [] OTHER -> <<>>

(* ---- literal values ---- *)
ExpLimit == 1200      \* literal exponents beyond this are "huge": not evaluated by the specification

RECURSIVE StripZeros(_)
StripZeros(ds) == IF ds # <<>> /\ ds[1] = 0 THEN StripZeros(Tail(ds)) ELSE ds

I32Max == NFromInt(2147483647)
\* the exponent as i32::from_str reads it: "ok" with a native value, "huge", or "bad" (parse failure)
ExpOf(tok) ==
  LET ds == StripZeros(tok.exp) IN
  IF tok.exp = <<>> THEN [s |-> "bad", v |-> 0]
  ELSE IF Len(ds) > 10 THEN [s |-> "bad", v |-> 0]
  ELSE LET n == NFromDigits(ds, 10) IN
       IF NLe(n, I32Max) \/ (tok.expneg /\ n = NAddSmall(I32Max, 1))
       THEN (IF Len(ds) > 4 \/ NToInt(n) > ExpLimit THEN [s |-> "huge", v |-> 0]
             ELSE [s |-> "ok", v |-> IF tok.expneg THEN -NToInt(n) ELSE NToInt(n)])
       ELSE [s |-> "bad", v |-> 0]

\* Number::from_parts: (int + frac / 10^len(frac)) * 10^exp
DecimalNode(tok) ==
  LET ip == NFromDigits(tok.int, 10)
      fl == Len(tok.frac)
      mant == IF tok.hasfrac
              THEN Q(Z(FALSE, NAdd(NMul(ip, NPow(<<10>>, fl)), NFromDigits(tok.frac, 10))), NPow(<<10>>, fl))
              ELSE Q(Z(FALSE, ip), <<1>>)
  IN IF ~tok.hasexp THEN Const(mant)
     ELSE LET e == ExpOf(tok) IN
          IF e.s = "bad" THEN ErrNode
          ELSE IF e.s = "huge" THEN Huge
          ELSE IF e.v >= 0 THEN Const(Q(Z(FALSE, NMul(mant.n.mag, NPow(<<10>>, e.v))), mant.d))
          ELSE Const(Q(mant.n, NMul(mant.d, NPow(<<10>>, -e.v))))

RadixNode(tok, base) == Const(Q(Z(FALSE, NFromDigits(tok.ds, base)), <<1>>))

JuxtStop == {"star", "slash", "comma", "eq", "plus", "minus", "arrow", "rpar", "nl", "shl", "shr",
             "mod", "and", "or", "xor", "comment", "eof"}

DivOp(k) == CASE k = "shl" -> "shl" [] k = "shr" -> "shr" [] k = "mod" -> "mod"
              [] k = "and" -> "and" [] k = "or" -> "or" [] k = "xor" -> "xor" [] OTHER -> "none"

RECURSIVE PTerm(_, _), PFunction(_, _, _), PArgs(_, _, _), PSuffix(_, _), PSuffixLoop(_, _, _),
          PPow(_, _), PFrac(_, _), PJuxt(_, _), PJuxtLoop(_, _, _), PDiv(_, _), PDivLoop(_, _, _),
          PAdd(_, _), PAddLoop(_, _, _), PEq(_, _)

PExpr(ts, p) == PEq(ts, p)

PTerm(ts, p) ==
  LET t == Peek(ts, p)
      q == IF p <= Len(ts) THEN p + 1 ELSE p       \* next() at the end keeps returning eof
  IN CASE t.k = "ident" ->
            IF FunctionOf(t.s) # "none" THEN PFunction(ts, q, FunctionOf(t.s))
            ELSE IF AttrOf(t.s) # <<>> THEN
                 (IF Peek(ts, q).k = "ident" THEN <<Unit(AttrOf(t.s) \o Peek(ts, q).s), q + 1>>
                  ELSE <<ErrNode, q>>)
            ELSE IF Peek(ts, q).k = "ident" /\ Peek(ts, q).s = W_of
                 THEN LET r == PJuxt(ts, q + 1) IN <<Of(t.s, r[1]), r[2]>>
            ELSE <<Unit(t.s), q>>
       [] t.k = "quote" -> <<Quote(t.s), q>>
       [] t.k = "dec" -> <<DecimalNode(t), q>>
       [] t.k = "hex" -> <<RadixNode(t, 16), q>>
       [] t.k = "oct" -> <<RadixNode(t, 8), q>>
       [] t.k = "bin" -> <<RadixNode(t, 2), q>>
       [] t.k = "plus" -> LET r == PTerm(ts, q) IN <<Un("pos", r[1]), r[2]>>
       [] t.k = "minus" -> LET r == PTerm(ts, q) IN <<Un("neg", r[1]), r[2]>>
       [] t.k = "lpar" -> LET r == PExpr(ts, q) IN
                          IF Peek(ts, r[2]).k = "rpar" THEN <<r[1], r[2] + 1>>
                          ELSE <<ErrNode, IF r[2] <= Len(ts) THEN r[2] + 1 ELSE r[2]>>
       [] t.k = "percent" -> <<Unit(W_percent), q>>
       [] t.k = "date" -> <<DateLit(t.toks), q>>
       [] t.k = "comment" -> PTerm(ts, q)
       [] OTHER -> <<ErrNode, q>>

\* arguments after '(' : <<ok, args, next>>
PArgs(ts, p, acc) ==
  IF Peek(ts, p).k = "rpar" THEN <<TRUE, acc, p + 1>>
  ELSE LET r == PExpr(ts, p)
           nx == Peek(ts, r[2]).k
       IN IF nx = "comma" THEN PArgs(ts, r[2] + 1, Append(acc, r[1]))
          ELSE IF nx = "rpar" THEN PArgs(ts, r[2], Append(acc, r[1]))
          ELSE <<FALSE, <<>>, r[2]>>

PFunction(ts, p, f) ==
  IF Peek(ts, p).k = "lpar"
  THEN LET r == PArgs(ts, p + 1, <<>>) IN
       IF ~r[1] THEN <<ErrNode, r[3]>> ELSE <<Call(f, r[2]), r[3]>>
  ELSE LET r == PPow(ts, p) IN <<Call(f, <<r[1]>>), r[2]>>

PSuffixLoop(ts, p, left) ==
  IF Peek(ts, p).k = "percent" THEN PSuffixLoop(ts, p + 1, Mul(<<left, Unit(W_percent)>>))
  ELSE <<left, p>>
PSuffix(ts, p) == LET r == PTerm(ts, p) IN PSuffixLoop(ts, r[2], r[1])

PPow(ts, p) ==
  LET l == PSuffix(ts, p) IN
  IF Peek(ts, l[2]).k = "caret"
  THEN LET r == PPow(ts, l[2] + 1) IN <<Bin("pow", l[1], r[1]), r[2]>>
  ELSE l

PFrac(ts, p) ==
  LET l == PPow(ts, p) IN
  IF Peek(ts, l[2]).k = "pipe"
  THEN LET r == PPow(ts, l[2] + 1) IN <<Bin("frac", l[1], r[1]), r[2]>>
  ELSE l

PJuxtLoop(ts, p, terms) ==
  LET t == Peek(ts, p) IN
  IF t.k \in JuxtStop THEN <<NewMul(terms), p>>
  ELSE IF t.k = "degree" THEN PJuxtLoop(ts, p + 1, <<Un(t.deg, NewMul(terms))>>)
  ELSE LET r == PFrac(ts, p) IN PJuxtLoop(ts, r[2], Append(terms, r[1]))
PJuxt(ts, p) == LET r == PFrac(ts, p) IN PJuxtLoop(ts, r[2], <<r[1]>>)

PDivLoop(ts, p, terms) ==
  LET t == Peek(ts, p) IN
  IF t.k = "slash" THEN LET r == PJuxt(ts, p + 1) IN PDivLoop(ts, r[2], <<Bin("frac", NewMul(terms), r[1])>>)
  ELSE IF t.k = "star" THEN LET r == PJuxt(ts, p + 1) IN PDivLoop(ts, r[2], Append(terms, r[1]))
  ELSE IF DivOp(t.k) # "none"
       THEN LET r == PJuxt(ts, p + 1) IN PDivLoop(ts, r[2], <<Bin(DivOp(t.k), NewMul(terms), r[1])>>)
  ELSE <<NewMul(terms), p>>
PDiv(ts, p) == LET r == PJuxt(ts, p) IN PDivLoop(ts, r[2], <<r[1]>>)

PAddLoop(ts, p, left) ==
  LET t == Peek(ts, p) IN
  IF t.k = "plus" THEN LET r == PDiv(ts, p + 1) IN PAddLoop(ts, r[2], Bin("add", left, r[1]))
  ELSE IF t.k = "minus" THEN LET r == PDiv(ts, p + 1) IN PAddLoop(ts, r[2], Bin("sub", left, r[1]))
  ELSE <<left, p>>
PAdd(ts, p) == LET r == PDiv(ts, p) IN PAddLoop(ts, r[2], r[1])

PEq(ts, p) ==
  LET l == PAdd(ts, p) IN
  IF Peek(ts, l[2]).k = "eq"
  THEN LET r == PAdd(ts, l[2] + 1) IN <<Bin("equals", l[1], r[1]), r[2]>>
  ELSE l

ParseExprText(s) == PExpr(Lex(s), 1)[1]

-----------------------------------------------------------------------------
(* queries *)

QExpr(e) == [k |-> "expr", e |-> e]
QConvert(e, conv, base, digits) == [k |-> "convert", e |-> e, conv |-> conv, base |-> base, digits |-> digits]
QErr == [k |-> "qerr"]
DDefault == [m |-> "default", n |-> <<>>]

IsIdent(t, w) == t.k = "ident" /\ t.s = w
PlainInt(t) == t.k = "dec" /\ ~t.hasfrac /\ ~t.hasexp

\* unit list after the arrow: names (>= 2) or <<>> when the text is not a unit list
RECURSIVE PUnitList(_, _, _, _)
PUnitList(ts, p, expecting, acc) ==
  LET t == Peek(ts, p) IN
  IF t.k = "ident" /\ expecting THEN PUnitList(ts, p + 1, FALSE, Append(acc, t.s))
  ELSE IF t.k \in {"comma", "semi"} /\ ~expecting THEN PUnitList(ts, p + 1, TRUE, acc)
  ELSE IF t.k \in {"eof", "nl", "comment"} /\ ~expecting THEN (IF Len(acc) > 1 THEN acc ELSE <<>>)
  ELSE <<>>

U64Max == NSub(NPow2(64), <<1>>)

\* time zone names: TzNames.tla (generated from the tz database the code links)
IsTz(name) == name # W_GB /\ name \in TZNames

TwoDigits(t) == PlainInt(t) /\ Len(t.int) = 2
POffset(ts, p) ==
  LET a == Peek(ts, p) b == Peek(ts, p + 1) c == Peek(ts, p + 2) d == Peek(ts, p + 3) IN
  IF a.k \in {"plus", "minus"} /\ TwoDigits(b) /\ c.k = "colon" /\ TwoDigits(d)
  THEN [ok |-> TRUE, secs |-> (IF a.k = "plus" THEN 1 ELSE -1) *
                              ((b.int[1] * 10 + b.int[2]) * 3600 + (d.int[1] * 10 + d.int[2]) * 60)]
  ELSE [ok |-> FALSE, secs |-> 0]

DError == [m |-> "error", n |-> <<>>]
PDigits(ts, p) ==    \* <<digits record (m = "error" on failure), next>>
  LET t == Peek(ts, p) IN
  IF IsIdent(t, W_digits) THEN
     (IF PlainInt(Peek(ts, p + 1))
      THEN LET n == NFromDigits(Peek(ts, p + 1).int, 10) IN
           IF NLe(n, U64Max) THEN <<[m |-> "digits", n |-> n], p + 2>> ELSE <<DError, p + 2>>
      ELSE <<[m |-> "full", n |-> <<>>], p + 1>>)
  ELSE IF t.k = "ident" /\ t.s \in {W_frac, W_fraction, W_ratio} THEN <<[m |-> "frac", n |-> <<>>], p + 1>>
  ELSE IF t.k = "ident" /\ t.s \in {W_sci, W_scientific} THEN <<[m |-> "sci", n |-> <<>>], p + 1>>
  ELSE IF t.k = "ident" /\ t.s \in {W_eng, W_engineering} THEN <<[m |-> "eng", n |-> <<>>], p + 1>>
  ELSE <<DDefault, p>>

PBase(ts, p) ==      \* <<base (0 = none) or -1 (error), next>>
  LET t == Peek(ts, p) IN
  IF IsIdent(t, W_base) THEN
     LET u == Peek(ts, p + 1) IN
     IF PlainInt(u) THEN
        LET n == NFromDigits(u.int, 10) IN
        IF NLe(n, <<36>>) /\ NLe(<<2>>, n) THEN <<NToInt(n), p + 2>> ELSE <<-1, p + 2>>
     ELSE <<-1, p + 2>>
  ELSE IF t.k = "ident" /\ t.s \in {W_hex, W_hexadecimal, W_base16} THEN <<16, p + 1>>
  ELSE IF t.k = "ident" /\ t.s \in {W_oct, W_octal, W_base8} THEN <<8, p + 1>>
  ELSE IF t.k = "ident" /\ t.s \in {W_bin, W_binary, W_base2} THEN <<2, p + 1>>
  ELSE <<0, p>>

PQueryMain(ts, p) ==
  LET l == PEq(ts, p) IN
  IF Peek(ts, l[2]).k # "arrow" THEN QExpr(l[1])
  ELSE
    LET a == l[2] + 1
        ul == PUnitList(ts, a, TRUE, <<>>)
    IN IF ul # <<>> THEN QConvert(l[1], [c |-> "list", names |-> ul], 0, DDefault)
       ELSE
         LET dg == PDigits(ts, a) IN
         IF dg[1].m = "error" THEN QErr
         ELSE
           LET bs == PBase(ts, dg[2]) IN
           IF bs[1] = -1 THEN QErr
           ELSE
             LET q == bs[2]
                 t == Peek(ts, q)
                 conv ==
                   IF t.k = "eof" THEN [c |-> "none"]
                   \* a scale is a conversion target only on its own; otherwise the text is an expression
                   \* (which is then refused: a scale operator cannot be part of a compound unit)
                   ELSE IF t.k = "degree" /\ Peek(ts, q + 1).k \in {"eof", "nl", "comment"} THEN [c |-> "degree", deg |-> t.deg]
                   ELSE IF t.k \in {"plus", "minus"} THEN
                        (IF POffset(ts, q).ok THEN [c |-> "offset", secs |-> POffset(ts, q).secs]
                         ELSE [c |-> "expr", e |-> PEq(ts, q)[1]])
                   ELSE IF t.k = "ident" /\ IsTz(t.s) THEN [c |-> "tz", name |-> t.s]
                   ELSE [c |-> "expr", e |-> PEq(ts, q)[1]]
             IN QConvert(l[1], conv, bs[1], dg[1])

PQuery(ts) ==
  LET t == Peek(ts, 1) IN
  IF IsIdent(t, W_factorize) THEN [k |-> "factorize", e |-> PEq(ts, 2)[1]]
  ELSE IF IsIdent(t, W_units) THEN
       LET u == Peek(ts, 2)
           q == IF u.k = "ident" /\ (u.s = W_for \/ u.s = W_of) THEN 3 ELSE 2
       IN [k |-> "unitsfor", e |-> PEq(ts, q)[1]]
  ELSE IF IsIdent(t, W_search) /\ Peek(ts, 2).k = "ident" THEN [k |-> "search", s |-> Peek(ts, 2).s]
  ELSE IF IsIdent(t, W_search) THEN PQueryMain(ts, 2)
  ELSE PQueryMain(ts, 1)

ParseQueryText(s) == PQuery(LexLine(s))

-----------------------------------------------------------------------------
(* structural equality of ASTs (TLC refuses = between records of different shapes) *)
RECURSIVE AstEq(_, _), AstSeqEq(_, _, _)
AstSeqEq(xs, ys, i) == i > Len(xs) \/ (AstEq(xs[i], ys[i]) /\ AstSeqEq(xs, ys, i + 1))
AstEq(a, b) ==
  /\ a.k = b.k
  /\ CASE a.k = "const" -> QEq(a.v, b.v)
       [] a.k = "unit" -> a.name = b.name
       [] a.k = "quote" -> a.s = b.s
       [] a.k = "bin" -> a.op = b.op /\ AstEq(a.l, b.l) /\ AstEq(a.r, b.r)
       [] a.k = "un" -> a.op = b.op /\ AstEq(a.e, b.e)
       [] a.k = "mul" -> Len(a.es) = Len(b.es) /\ AstSeqEq(a.es, b.es, 1)
       [] a.k = "of" -> a.prop = b.prop /\ AstEq(a.e, b.e)
       [] a.k = "call" -> a.f = b.f /\ Len(a.args) = Len(b.args) /\ AstSeqEq(a.args, b.args, 1)
       [] OTHER -> TRUE       \* err, huge, date: kind only
=============================================================================
