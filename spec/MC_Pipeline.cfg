SPECIFICATION MCSpec
INVARIANTS TypeOK OnlyExpensiveStopped CheapNeverStopped
PROPERTIES ReturnsToIdle
CHECK_DEADLOCK FALSE
