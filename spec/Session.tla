------------------------------- MODULE Session -------------------------------
(***************************************************************************)
(* Property C15: queries are pure; only `ans` carries state between them.  *)
(*                                                                         *)
(* One evaluation context as every front-end uses it (rink_core::eval,     *)
(* helpers.rs; Context::lookup of ans / ANS / _, context.rs):              *)
(*   db        identifier (digest) of the loaded registry, including the   *)
(*             load-time scratch names, which must be empty after loading  *)
(*   ans       NoAns or the value of the most recent successful numeric    *)
(*             result of a plain expression                                *)
(*   save      the feature flag (save_previous_result)                     *)
(*   settings  the other settings of the context                           *)
(*   seen      history variable: the triples <<query, previous answer,      *)
(*             reply>> observed so far                                     *)
(*   last      history variable: the query of the most recent call         *)
(*                                                                         *)
(* Reply(q, a) is an abstract function: the reply a FRESH context gives to *)
(* query q when its previous answer is a.  A reply is a record with at     *)
(* least  kind  (number, duration, date, subst, conversion, unitlist, def, *)
(* unitsfor, factorize, search, error)  and  raw  (the value of a numeric  *)
(* reply).  Plain(q): q is a plain expression (no conversion, no command). *)
(*                                                                         *)
(* Reading A1 (DESIGN.md section 6): a time-valued plain expression, which *)
(* Rink shows as a duration breakdown, is a "numeric result".              *)
(***************************************************************************)
EXTENDS Integers, Sequences, FiniteSets

CONSTANTS Queries, NoAns, Reply(_, _), Plain(_)

VARIABLES db, ans, save, settings, seen, last
svars == <<db, ans, save, settings, seen, last>>

NumericKinds == {"number", "duration"}
Numeric(q, r) == Plain(q) /\ r.kind \in NumericKinds

\* the previous answer after query q got reply r
AnsAfter(sv, a, q, r) == IF sv /\ Numeric(q, r) THEN r.raw ELSE a

\* one call of the stateful entry point with query q answered by r
Step(q, r) ==
  /\ ans' = AnsAfter(save, ans, q, r)
  /\ db' = db
  /\ save' = save /\ settings' = settings
  /\ seen' = IF <<q, ans, r>> \in seen THEN seen ELSE seen \cup {<<q, ans, r>>}
  /\ last' = q

Submit(q) == Step(q, Reply(q, ans))

Next == \E q \in Queries : Submit(q)

-----------------------------------------------------------------------------
(* the property *)
DbConst == [][db' = db /\ settings' = settings /\ save' = save]_svars

\* `ans` is the raw value of the most recent successful numeric result of a plain expression:
\* the call just made (last') either stores its reply's value or leaves `ans` alone
AnsRule == [][ans' = IF save /\ Plain(last') /\ Reply(last', ans).kind \in NumericKinds
                     THEN Reply(last', ans).raw ELSE ans]_svars

\* never set while the feature is off
OffNeverSet == [][~save => ans' = ans]_svars

\* the reply is a function of (query, previous answer) only - and it is the fresh context's reply
Purity == \A x \in seen : x[3] = Reply(x[1], x[2])
PurityRel == \A x, y \in seen : (x[1] = y[1] /\ x[2] = y[2]) => x[3] = y[3]
=============================================================================
