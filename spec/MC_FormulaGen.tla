---------------------------- MODULE MC_FormulaGen ----------------------------
(***************************************************************************)
(* Generator for the formula leg of C16: every string of at most MaxTok    *)
(* tokens, a token being a symbol followed by a count spelling (possibly   *)
(* empty).  Constants come from a generated module (cfg files cannot hold  *)
(* tuples inside sets).  Each string is printed as a CASE line; whether it *)
(* is a formula, and its molar mass, is decided later by Formula.tla.      *)
(***************************************************************************)
EXTENDS Integers, Sequences, TLC, Json

CONSTANTS Syms,      \* set of symbol spellings (code point sequences)
          Counts,    \* set of count spellings (code point sequences, <<>> = no count)
          MaxTok

VARIABLES text, ntok

Init == text = <<>> /\ ntok = 0
AddToken == /\ ntok < MaxTok
            /\ \E s \in Syms : \E c \in Counts : text' = text \o s \o c
            /\ ntok' = ntok + 1
Spec == Init /\ [][AddToken]_<<text, ntok>>

\* one string per line (TLC wraps tuples longer than 80 characters, not strings)
Emit == ntok > 0 => PrintT("CASE " \o ToJson(text))
=============================================================================
