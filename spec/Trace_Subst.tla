----------------------------- MODULE Trace_Subst -----------------------------
(***************************************************************************)
(* Judge for property C16: executions of the real evaluator on queries     *)
(* about substances (recorded by rv-eval on the bundled database).  Every  *)
(* line is a query text, the AST the code's parser built and the reply.    *)
(* The specification parses the text itself (Lexer, Grammar), evaluates it *)
(* over numbers and substances (Substance.tla: the Law, scaling, formulas; *)
(* property records and unit values from the registry dump, all algebra    *)
(* with BigNum) and compares:                                              *)
(*   p of (a S)            number target * (a / source), conformance       *)
(*                         error, or error                                 *)
(*   a S, k * S, S / k     substance reply: every reported property        *)
(*   a S -> unit           substance reply in that unit                    *)
(*   formulas              molar mass, or "not a formula"                  *)
(* Lines are independent: REJECT / CRASH / SILENT / ASTDIFF per line.      *)
(* Optional field ref of a line: the reply for the stored substance        *)
(* (needed for the ratios a bare substance reports).                       *)
(***************************************************************************)
EXTENDS Substance, Query, Json, IOUtils

Rec == ndJsonDeserialize(IOEnv.TRACE)
NRec == Len(Rec)
JudgeEnv == EnvFromJson(JsonDeserialize(IOEnv.ENVFILE), TRUE, FALSE)
JudgeSEnv == SubstEnv(JsonDeserialize(IOEnv.SUBSTFILE))

VARIABLE l

HasRef(ev) == "ref" \in DOMAIN ev /\ ev.ref.t = "subst"
RefAmount(ev) == QtyOfJson(ev.ref.amount.raw)

SubstReplyOK(sub, per, ev) ==
  /\ ev.obs.t = "subst"
  /\ ValAgree(sub.amount, ev.obs.amount)
  /\ IF IsBare(sub)
     THEN per.t # "num" /\ ReportedBare(sub, ev.obs, HasRef(ev), IF HasRef(ev) THEN ev.ref ELSE ev.obs,
                                        IF HasRef(ev) THEN RefAmount(ev) ELSE sub.amount)
     ELSE ReportedDim(sub, per, ev.obs)

Judge(ev, i, val, per, undecided) ==
  IF undecided \/ Silent(val) THEN PrintT(<<"SILENT", i>>)
  ELSE IF ev.obs.t = "crash" THEN PrintT(<<"CRASH", i>>)
  ELSE IF val.t = "subst" THEN
       (IF val.s.amount.t # "num" \/ (IsBare(val.s) /\ per.t = "num") THEN PrintT(<<"SILENT", i>>)
        ELSE IF SubstReplyOK(val.s, per, ev) THEN TRUE
        ELSE PrintT(<<"REJECT", i, "substance reply">>))
  ELSE IF per.t = "num" THEN PrintT(<<"SILENT", i>>)          \* a number converted: C03's business
  ELSE IF Agree(val, ev.obs) THEN TRUE
  ELSE PrintT(<<"REJECT", i, ToJson(val)>>)

NoPer == [t |-> "none"]

Verdict(ev, i) ==
  IF ~Supported(ev.q) THEN PrintT(<<"UNSUPPORTED", i>>)
  ELSE
    \E qa \in {ParseQueryText(ev.q)} :
    /\ IF ev.ast.k # "none" /\ ~(ev.ast.k = qa.k /\ (qa.k \in {"expr", "convert"} => AstEq(qa.e, ev.ast.e)))
       THEN PrintT(<<"ASTDIFF", i>>) ELSE TRUE
    /\ IF qa.k = "expr" THEN
          \E val \in {SEv(qa.e, JudgeEnv, JudgeSEnv)} :
             \* a bare name may be answered with its definition (eval_query): not this property's business
             Judge(ev, i, val, NoPer, ev.obs.t = "def" /\ qa.e.k = "unit")
       ELSE IF qa.k = "convert" /\ qa.conv.c = "expr" /\ qa.base = 0 /\ qa.digits.m = "default" THEN
          \E val \in {SEv(qa.e, JudgeEnv, JudgeSEnv)} :
          \E per \in {SEv(qa.conv.e, JudgeEnv, JudgeSEnv)} :
             IF val.t = "err" THEN Judge(ev, i, val, NoPer, FALSE)
             ELSE IF per.t = "err" THEN Judge(ev, i, per, NoPer, FALSE)
             ELSE Judge(ev, i, val, per, per.t # "num" \/ (per.t = "num" /\ QIsZero(per.v)))
       ELSE PrintT(<<"SILENT", i>>)

Init == l = 1
Next == l <= NRec /\ Verdict(Rec[l], l) /\ l' = l + 1
Spec == Init /\ [][Next]_l
=============================================================================
