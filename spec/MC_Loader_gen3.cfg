SPECIFICATION Spec
CONSTANTS
  InitCase <- MCInitCase
  BaseNames <- MCBaseNames
  MaxDefs = 3
  MaxFiles = 3
  PoolSel = {1,2,3,4,5,6,7,8,9,10,11,12}
INVARIANTS TypeOK MeasureNat TempIsStack EmittedOnce TemporariesEmpty TopoOrder TopoOrderStrict CycleReported OrderIndependent ForwardRefsScoped FixedPointScoped EmitCase EmitDb CountAmbiguous CountAmbiguousFwd
PROPERTIES Progress
CHECK_DEADLOCK FALSE
