----------------------------- MODULE MC_Sandbox -----------------------------
(***************************************************************************)
(* Bounded configurations of Sandbox.tla.                                  *)
(*   MC_Sandbox_fixed5.cfg    repaired code, request kinds, all properties, VIEW View      *)
(*   MC_Sandbox_fixedenv4.cfg repaired code, requests + environment (abandon, kill), VIEW  *)
(*   MC_Sandbox_noview.cfg    the same without VIEW (cross-check) + GenPattern             *)
(*   MC_Sandbox_unfixed.cfg   the code before ca74683 / e127414 / the EPIPE fix: must      *)
(*   MC_Sandbox_unfixed_abandon.cfg, MC_Sandbox_unfixed_epipe.cfg   violate C18            *)
(*   MC_Sandbox_live*.cfg     FairSpec => Progress, no VIEW, no constraint                 *)
(*   MC_Sandbox_gen*.cfg      generator: one REPLAY line per finished behaviour; the       *)
(*                            engine keeps one case per (entry sequence, gap vector)       *)
(*     gen3 / gen4 / gen5u    request kinds                                                *)
(*     genenv3q / genenv3 / genenv4   requests + abandoned requests + idle kills in every  *)
(*                            position                                                     *)
(*     genidle3 / genidle3p   idle times close to and beyond the time limit before         *)
(*                            quick / slow / overrunning requests                          *)
(***************************************************************************)
EXTENDS Sandbox, Json

AllKinds == {"ok", "panic", "overrun", "oom", "exit", "big"}
EnvAll == AllKinds \cup {"abandon", "abover", "kill"}
EnvCore == {"ok", "panic", "overrun", "exit", "big", "abandon", "abover", "kill"}
EnvQuick == {"ok", "panic", "overrun", "exit", "abandon", "abover", "kill"}
AbandonOnly == {"ok", "abandon"}
KillOnly == {"ok", "panic", "big", "kill"}
IdleKinds == {"ok", "slow", "overrun"}
IdleKindsP == {"ok", "slow", "overrun", "panic"}
Gaps01 == {0, 1}
Gaps0 == {0}
Gaps023 == {0, 2, 3}

\* Printed when the last call has returned.  `expect` is what the PROPERTY allows for
\* each plan entry (a set of reply classes; "Ok" means: the request's own result);
\* `model` / `gens` are what this behaviour of the transcription did (drift level only).
\* `gaps` are gap kinds: the engine turns them into milliseconds.
EmitCase ==
  (cpc = "done") =>
     PrintT(<<"REPLAY", ToJson([plan   |-> plan,
                                gaps   |-> gaps,
                                expect |-> [i \in DOMAIN plan |-> AdmissibleAt(i)],
                                model  |-> [i \in DOMAIN got |-> got[i].class],
                                gens   |-> [i \in DOMAIN got |-> got[i].gen]])>>)
=============================================================================
