----------------------------- MODULE MC_Sandbox -----------------------------
(***************************************************************************)
(* Bounded configurations of Sandbox.tla.                                  *)
(*   MC_Sandbox_fixed5.cfg   repaired code, all properties, VIEW View     *)
(*   MC_Sandbox_noview.cfg    the same without VIEW (cross-check) + GenPattern *)
(*   MC_Sandbox_unfixed*.cfg  the code before the fix: must violate C18    *)
(*   MC_Sandbox_live*.cfg     FairSpec => Progress, no VIEW, no constraint *)
(*   MC_Sandbox_gen*.cfg      generator: one REPLAY line per finished      *)
(*                            behaviour = per (fault sequence, gaps)       *)
(***************************************************************************)
EXTENDS Sandbox, Json

AllKinds == {"ok", "panic", "overrun", "oom", "exit", "big"}
Gaps01 == {0, 1}
Gaps0 == {0}

GapMs(g) == IF g = 0 THEN 0 ELSE 60

\* Printed when the last call has returned.  `expect` is what the PROPERTY allows for
\* each request (a set of reply classes; "Ok" means: the request's own result);
\* `model` / `gens` are what this behaviour of the transcription did (drift level only).
EmitCase ==
  (cpc = "done") =>
     PrintT(<<"REPLAY", ToJson([plan   |-> plan,
                                gaps   |-> [i \in DOMAIN gaps |-> GapMs(gaps[i])],
                                expect |-> [i \in DOMAIN plan |-> Admissible(plan[i])],
                                model  |-> [i \in DOMAIN got |-> got[i].class],
                                gens   |-> [i \in DOMAIN got |-> got[i].gen]])>>)
=============================================================================
