------------------------------ MODULE Substance ------------------------------
(***************************************************************************)
(* Substances (property C16).                                              *)
(*                                                                         *)
(* A property relates an input quantity to an output quantity:             *)
(*   [name, input, input_name, output, output_name]                        *)
(* e.g. water: density = mass 1 gram / volume 1 cm^3, or a constant        *)
(* electron: mass = const electron_mass 5.4e-4 u (input = 1, no dimension).*)
(* A substance value is [name, amount, props]: an amount of the substance  *)
(* (a quantity: a count, or e.g. 3 liters) and its properties.  A unit     *)
(* defined in the database as an amount of a substance is a substance      *)
(* value whose stored amount is not 1.                                     *)
(*                                                                         *)
(* THE LAW.  A name designates a direction of a property:                  *)
(*   - for an amount that has a dimension, the property's output_name      *)
(*     designates "input -> output" and its input_name "output -> input";  *)
(*   - a bare substance (amount without dimension: the substance as such,  *)
(*     or a count of it) is asked by the property's own name, direction    *)
(*     "input -> output".                                                  *)
(* Asking an amount a for the direction source -> target gives             *)
(*        target * (a / source)                                            *)
(* exactly; an amount that has a dimension other than the source's is      *)
(* refused with a conformance error.  (The four code paths of              *)
(* Substance::get are this one law.)  The law is applied only under names  *)
(* that are Unambiguous within the substance.                              *)
(*                                                                         *)
(* Quantities are Eval's number values [t |-> "num", v : Q, d : Dim].      *)
(***************************************************************************)
EXTENDS Eval, Formula, FiniteSets

SubstV(s) == [t |-> "subst", s |-> s]

IsBare(sub) == DIsEmpty(sub.amount.d)

Source(p, dir) == IF dir = "out" THEN p.input ELSE p.output
Target(p, dir) == IF dir = "out" THEN p.output ELSE p.input
DirName(p, dir) == IF dir = "out" THEN p.output_name ELSE p.input_name
Dirs(sub) == (DOMAIN sub.props) \X {"out", "in"}

\* the directions that carry this name as input / output name
Mentions(sub, name) == {x \in Dirs(sub) : DirName(sub.props[x[1]], x[2]) = name}
\* the properties called so
Keys(sub, name) == {i \in DOMAIN sub.props : sub.props[i].name = name}

Designates(sub, name) ==
  IF IsBare(sub) THEN Keys(sub, name) \X {"out"} ELSE Mentions(sub, name)

\* the name identifies exactly one direction of one property of the substance
Unambiguous(sub, name) ==
  /\ Cardinality(Designates(sub, name)) = 1
  /\ IsBare(sub) => \A x \in Mentions(sub, name) : x[1] \in Keys(sub, name)

\* target * (a / source)
Law(sub, p, dir) == NumDiv(NumMul(Target(p, dir), sub.amount), Source(p, dir))

Fits(sub, p, dir) == DEq(sub.amount.d, Source(p, dir).d)

\* only for Unambiguous(sub, name)
Get(sub, name) ==
  LET x == CHOOSE x \in Designates(sub, name) : TRUE
      p == sub.props[x[1]]
  IN IF IsBare(sub) \/ Fits(sub, p, x[2]) THEN Law(sub, p, x[2]) ELSE VErr("conformance")

\* what the statement determines for `name of sub`
GetV(sub, name) ==
  IF sub.amount.t # "num" THEN VUnknown
  ELSE IF Unambiguous(sub, name) THEN Get(sub, name)
  ELSE IF Designates(sub, name) = {} /\ Mentions(sub, name) = {} /\ Keys(sub, name) = {} THEN VErr("generic")   \* no such property
  ELSE VUnknown                               \* ambiguous, or a name of the other regime: not determined

\* multiplying / dividing a substance by a number scales the amount - and with it (Law) every property
Scale(sub, n) == [sub EXCEPT !.amount = NumMul(@, n)]
Unscale(sub, n) == [sub EXCEPT !.amount = NumDiv(@, n)]

-----------------------------------------------------------------------------
(* substances from a registry dump (harness/src/dump.rs) *)
QtyOfJson(j) == IF j.t = "num" THEN VNum(j.v, DFromJson(j.d)) ELSE VFloat(DFromJson(j.d), FALSE)
PropOfJson(j) == [name |-> j.name, input |-> QtyOfJson(j.input), input_name |-> j.input_name,
                  output |-> QtyOfJson(j.output), output_name |-> j.output_name]
SubstOfJson(j) == [name |-> j.name, amount |-> QtyOfJson(j.amount),
                   props |-> [i \in DOMAIN j.props |-> PropOfJson(j.props[i])]]

MolarMassName == <<109, 111, 108, 97, 114, 95, 109, 97, 115, 115>>     \* "molar_mass"
MassName == <<109, 97, 115, 115>>                                       \* "mass"
AmountName == <<97, 109, 111, 117, 110, 116>>                           \* "amount"
MolarMassDim == [u \in {<<107, 103>>, <<109, 111, 108>>} |-> IF u = <<107, 103>> THEN 1 ELSE -1]   \* kg / mol

\* molar mass of an element: the molar_mass property of its (bare) substance
ElementOK(sub) ==
  /\ IsBare(sub) /\ Unambiguous(sub, MolarMassName)
  /\ Get(sub, MolarMassName).t = "num" /\ DEq(Get(sub, MolarMassName).d, MolarMassDim)

\* senv = [subst : name -> substance, symbols : symbol -> substance name,
\*         mass : symbol -> molar mass (Q, kg/mol) for the symbols whose element has a usable molar mass]
SubstEnv(j) ==
  LET subst == [n \in {j.substances[i].name : i \in DOMAIN j.substances} |->
                  SubstOfJson(j.substances[CHOOSE i \in DOMAIN j.substances : j.substances[i].name = n])]
      symbols == [s \in {j.symbols[i].sym : i \in DOMAIN j.symbols} |->
                    j.symbols[CHOOSE i \in DOMAIN j.symbols : j.symbols[i].sym = s].name]
      known == {s \in DOMAIN symbols : symbols[s] \in DOMAIN subst /\ ElementOK(subst[symbols[s]])}
  IN [subst |-> subst, symbols |-> symbols,
      mass |-> [s \in known |-> Get(subst[symbols[s]], MolarMassName).v]]

\* the substance a formula denotes: one property, the molar mass (a constant: mass per 1)
FormulaSubst(text, senv) ==
  [name |-> text, amount |-> VNum(QOne, DEmpty),
   props |-> <<[name |-> MolarMassName, input |-> VNum(QOne, DEmpty), input_name |-> AmountName,
                output |-> VNum(MolarMass(text, senv.mass), MolarMassDim), output_name |-> MassName]>>]

-----------------------------------------------------------------------------
(* expressions over numbers and substances.  env: Eval's environment (units of the database),
   senv: the substances.  Name resolution order as eval.rs Expr::Unit: unit (with prefix / plural),
   substance name, element symbol, formula. *)
IsNum(x) == x.t \in {"num", "float"}
Undecided(x) == x.t \in {"unknown", "huge", "shiftneg"}

SUnit(name, env, senv) ==
  LET v == CtxLookup(env, name) IN
  IF v.t # "none" THEN v
  ELSE IF name \in DOMAIN senv.subst THEN SubstV(senv.subst[name])
  ELSE IF name \in DOMAIN senv.symbols
       THEN (IF senv.symbols[name] \in DOMAIN senv.subst THEN SubstV(senv.subst[senv.symbols[name]]) ELSE VUnknown)
  ELSE IF IsFormula(name, DOMAIN senv.mass) THEN SubstV(FormulaSubst(name, senv))
  ELSE IF IsFormula(name, DOMAIN senv.symbols) THEN VUnknown      \* an element without a usable molar mass
  ELSE VErr("notfound")

SMul(a, b) ==
  IF Undecided(a) \/ Undecided(b) THEN VUnknown
  ELSE IF IsNum(a) /\ IsNum(b) THEN NumMul(a, b)
  ELSE IF IsNum(a) /\ b.t = "subst" THEN SubstV(Scale(b.s, a))
  ELSE IF a.t = "subst" /\ IsNum(b) THEN SubstV(Scale(a.s, b))
  ELSE IF a.t = "subst" /\ b.t = "subst" THEN VErr("generic")
  ELSE VUnknown

SDiv(a, b) ==
  IF Undecided(a) \/ Undecided(b) THEN VUnknown
  ELSE IF IsNum(a) /\ IsNum(b) THEN NumDiv(a, b)
  ELSE IF a.t = "subst" /\ IsNum(b) THEN
       (IF b.t = "num" /\ QIsZero(b.v) THEN VErr("generic")
        ELSE IF b.t = "num" THEN SubstV(Unscale(a.s, b)) ELSE VUnknown)
  ELSE IF b.t = "subst" /\ (IsNum(a) \/ a.t = "subst") THEN VErr("generic")
  ELSE VUnknown

RECURSIVE SEv(_, _, _), SEvMul(_, _, _, _, _)
SEvMul(es, env, senv, i, acc) ==
  IF i > Len(es) THEN acc
  ELSE LET b == SEv(es[i], env, senv) IN
       IF b.t = "err" THEN b
       ELSE LET m == SMul(acc, b) IN
            IF m.t = "err" THEN m ELSE SEvMul(es, env, senv, i + 1, m)

SEv(e, env, senv) ==
  CASE e.k = "const" -> VNum(e.v, DEmpty)
    [] e.k = "unit" -> IF e.name = W_now THEN VUnknown ELSE SUnit(e.name, env, senv)
    [] e.k = "quote" -> VNum(QOne, DBase(e.s))
    [] e.k = "mul" -> SEvMul(e.es, env, senv, 1, VNum(QOne, DEmpty))
    [] e.k = "of" ->
         LET x == SEv(e.e, env, senv) IN
         IF x.t = "err" THEN x
         ELSE IF x.t = "subst" THEN GetV(x.s, e.prop)
         ELSE IF IsNum(x) THEN VErr("generic")            \* "Not defined: p of <number>"
         ELSE VUnknown
    [] e.k = "bin" /\ e.op \in {"frac", "pow", "add", "sub"} ->
         LET a == SEv(e.l, env, senv) IN
         IF a.t = "err" THEN a
         ELSE LET b == SEv(e.r, env, senv) IN
              IF b.t = "err" THEN b
              ELSE IF e.op = "frac" THEN SDiv(a, b)
              ELSE IF Undecided(a) \/ Undecided(b) THEN VUnknown
              ELSE IF IsNum(a) /\ IsNum(b) THEN BinValue(e.op, a, b)
              ELSE IF e.op = "pow" /\ (a.t = "subst" \/ b.t = "subst") THEN VErr("generic")
              ELSE IF (a.t = "subst") # (b.t = "subst") THEN VErr("generic")       \* number +- substance
              ELSE VUnknown                                                          \* substance + substance: not in C16
    [] e.k = "un" /\ e.op \in {"neg", "pos"} ->
         LET x == SEv(e.e, env, senv) IN
         IF x.t = "err" THEN x
         ELSE IF x.t = "num" THEN (IF e.op = "neg" THEN VNum(QNeg(x.v), x.d) ELSE x)
         ELSE IF x.t = "float" \/ (x.t = "subst" /\ e.op = "pos") THEN x
         ELSE VUnknown
    [] OTHER -> VUnknown

-----------------------------------------------------------------------------
(* the reply to a query whose value is a substance: the properties it reports.
   obs = [t |-> "subst", amount |-> parts, props |-> <<[name, value |-> parts], ...>>], parts.raw a number *)
HasRaw(parts) == "raw" \in DOMAIN parts
ValAgree(v, parts) == HasRaw(parts) /\ Agree(v, parts.raw)

\* an amount that has a dimension: first the amount itself, then one entry per property that has a
\* direction whose source has the amount's dimension, under that direction's name, with the Law's value
\* (divided by the target unit `per` for a conversion, where only directions into that unit's dimension count)
FitDirs(sub, i, per) ==
  {dir \in {"out", "in"} : /\ Fits(sub, sub.props[i], dir)
                           /\ (per.t = "num" => DEq(Target(sub.props[i], dir).d, per.d))}
Shown(sub, p, dir, per) == IF per.t = "num" THEN NumDiv(Law(sub, p, dir), per) ELSE Law(sub, p, dir)
EntryIs(sub, i, dir, per, o) ==
  o.name = DirName(sub.props[i], dir) /\ ValAgree(Shown(sub, sub.props[i], dir, per), o.value)

ReportedDim(sub, per, obs) ==
  LET n == Len(obs.props)
      live == {i \in DOMAIN sub.props : FitDirs(sub, i, per) # {}}
  IN /\ n = Cardinality(live) + 1
     /\ ValAgree(sub.amount, obs.props[1].value)
     /\ \A k \in 2..n : \E i \in live : \E dir \in FitDirs(sub, i, per) : EntryIs(sub, i, dir, per, obs.props[k])
     /\ \A i \in live : \E k \in 2..n : \E dir \in FitDirs(sub, i, per) : EntryIs(sub, i, dir, per, obs.props[k])

\* a bare substance: one entry per property under the property's name.  A constant (input without
\* dimension) is reported as a quantity: target * (a / source).  A ratio is reported per unit of its input;
\* the statement's amounts (in the input's dimension) do not cover a count of a ratio, so either reading
\* is accepted there: the ratio as it is (factor 1) or scaled by the count (factor k) - relative to the
\* reply `ref` for the stored substance, whose amount is refamount.
RatioOK(sub, o, ref, refamount) ==
  \E r \in {ref.props[j] : j \in {j \in DOMAIN ref.props : ref.props[j].name = o.name}} :
     /\ HasRaw(o.value) /\ HasRaw(r.value) /\ o.value.raw.t = "num" /\ r.value.raw.t = "num"
     /\ o.value.raw.d = r.value.raw.d
     /\ \/ QEq(o.value.raw.v, r.value.raw.v)
        \/ QEq(o.value.raw.v, QMul(r.value.raw.v, QDiv(sub.amount.v, refamount.v)))

ReportedBare(sub, obs, hasref, ref, refamount) ==
  /\ Len(obs.props) = Len(sub.props)
  /\ \A i \in DOMAIN sub.props :
       LET p == sub.props[i] IN
       \E k \in DOMAIN obs.props :
          /\ obs.props[k].name = p.name
          /\ IF DIsEmpty(p.input.d) THEN ValAgree(Law(sub, p, "out"), obs.props[k].value)
             ELSE (~hasref \/ RatioOK(sub, obs.props[k], ref, refamount))
=============================================================================
