----------------------------- MODULE Trace_Eval -----------------------------
(***************************************************************************)
(* Judges executions of the real evaluator (recorded by rv-eval) against   *)
(* the specification: every line is a query text, the AST the code's       *)
(* parser built for it, and the reply.  The specification lexes and parses *)
(* the text itself (Lexer, Grammar), evaluates it with its own arithmetic  *)
(* (Eval over BigNum/Dim) and compares.  Lines are independent, so a       *)
(* rejected line is reported (REJECT) and the next one is judged.          *)
(*   REJECT  l  : the reply is not the one the specification determines    *)
(*   ASTDIFF l  : the code's AST differs from the specification's parse    *)
(*   SILENT  l  : the specification does not determine this reply          *)
(***************************************************************************)
EXTENDS Eval, TLC, Json, IOUtils

Rec == ndJsonDeserialize(IOEnv.TRACE)
NRec == Len(Rec)

VARIABLE l

JudgeEnv == EmptyEnv

Verdict(ev, i) ==
  IF ~Supported(ev.q) THEN PrintT(<<"UNSUPPORTED", i>>)
  ELSE
    \* bound through a singleton set so that the parse and the value are computed once
    \E qa \in {ParseQueryText(ev.q)} :
    /\ IF ev.ast.k # "none" /\ ~(ev.ast.k = qa.k /\ (qa.k = "expr" => AstEq(qa.e, ev.ast.e)))
       THEN PrintT(<<"ASTDIFF", i>>) ELSE TRUE
    /\ IF qa.k # "expr" THEN PrintT(<<"SILENT", i>>)
       ELSE \E val \in {Ev(qa.e, JudgeEnv)} :
            IF Silent(val) THEN PrintT(<<"SILENT", i>>)
            ELSE IF ev.obs.t = "crash" THEN PrintT(<<"CRASH", i>>)
            ELSE IF Agree(val, ev.obs) THEN TRUE
            ELSE PrintT(<<"REJECT", i, ToJson(val)>>)

Init == l = 1
Next == l <= NRec /\ Verdict(Rec[l], l) /\ l' = l + 1
Spec == Init /\ [][Next]_l
=============================================================================
