SPECIFICATION Spec
CONSTANTS
  NewLen = 3
  ErrLen = 1
  Cuts <- MCCuts
  Codes <- MCCodes
  ChunkSizes <- MCOne
  NetMayFail = FALSE
  MayLeaveLitter = FALSE
  CloseDelimited = TRUE
  WriteInPlace = FALSE
  PersistBeforeStatusCheck = FALSE
  TruncatedIsSuccess = FALSE
  SkipValidation = FALSE
  FixedTempName = TRUE
  NoStaleFallback = FALSE
  AbortOnRefreshError = FALSE
INVARIANTS Recovers
CHECK_DEADLOCK FALSE
