SPECIFICATION MCSpec
CONSTANTS
  MaxLen = 3
  Fault = "conv"
  Queries <- MCQueries
  NoAns <- MCNoAns
  Reply <- MCReply
  Plain <- MCPlain
INVARIANTS Purity PurityRel
PROPERTIES DbConst AnsRule OffNeverSet
CHECK_DEADLOCK FALSE
