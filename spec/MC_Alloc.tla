------------------------------ MODULE MC_Alloc ------------------------------
EXTENDS Alloc, Json
(* Bounded configurations of Alloc.tla.  The generator configuration (one  *)
(* thread, KeepHistory) prints one REPLAY line per quiescent state: the    *)
(* operation sequence that led to it, the result the model gives to each   *)
(* operation, the usage and the least admissible peak.                     *)

MCThreads1 == {1}
MCThreads2 == {1, 2}
MCThreads3 == {1, 2, 3}

EmitCase ==
  (Quiescent /\ KeepHistory /\ Len(hist) > 0) =>
     PrintT(<<"REPLAY", ToJson([limit |-> Limit, ops |-> hist, usage |-> LiveTotal,
                                 used |-> used, peak_min |-> peakLive, max |-> max])>>)

\* hide the history from the fingerprint in the multi-thread configurations
NoHistView == <<used, max, live, pc, loc, ops, peakLive>>
=============================================================================
