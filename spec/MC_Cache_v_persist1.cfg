SPECIFICATION Spec
CONSTANTS
  NewLen = 3
  ErrLen = 1
  Cuts <- MCCuts
  Codes <- MCCodes
  ChunkSizes <- MCOne
  NetMayFail = FALSE
  MayLeaveLitter = FALSE
  CloseDelimited = TRUE
  WriteInPlace = FALSE
  PersistBeforeStatusCheck = TRUE
  TruncatedIsSuccess = FALSE
  SkipValidation = FALSE
  FixedTempName = FALSE
  NoStaleFallback = FALSE
  AbortOnRefreshError = FALSE
INVARIANTS Atomic
CHECK_DEADLOCK FALSE
