SPECIFICATION Spec
CONSTANTS
  NewLen = 3
  ErrLen = 1
  Cuts <- MCCuts
  Codes <- MCCodes
  ChunkSizes <- MCOne
  NetMayFail = FALSE
  MayLeaveLitter = FALSE
  WriteInPlace = FALSE
  PersistBeforeStatusCheck = TRUE
  TruncatedIsSuccess = FALSE
  NoStaleFallback = FALSE
  AbortOnRefreshError = FALSE
INVARIANTS Atomic
CHECK_DEADLOCK FALSE
