INIT Init
NEXT Next
