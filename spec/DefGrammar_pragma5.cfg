SPECIFICATION Spec
INVARIANT Emit
CHECK_DEADLOCK FALSE
CONSTANTS
  Tokens <- AlphaPragma
  Prefix <- NoText
  Suffix <- NoText
  MaxLen = 5
