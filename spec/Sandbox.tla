------------------------------ MODULE Sandbox ------------------------------
(***************************************************************************)
(* The sandbox protocol of rink-sandbox (sandbox/src/parent.rs:46-150,     *)
(* child.rs:81-118, frame.rs), written to be bound to the code: one action *)
(* per protocol step of each process.                                      *)
(*                                                                         *)
(*   Caller      Sandbox::execute (parent.rs:186-197): put the request on  *)
(*               reqCh (bounded 1), take the reply from respCh.            *)
(*   ParentTask  run_task: outer loop spawn + handshake; inner loop take a *)
(*               request, write its frame, race(read frame / EOF /         *)
(*               timeout), classify, deliver the reply, on break_out kill  *)
(*               and respawn.                                              *)
(*   Child       become_child: handshake; loop read frame, handle, write   *)
(*               the reply; after a panic reply exit(1).                   *)
(*   OS          a dead child closes its pipe ends: a write to a pipe      *)
(*               without reader fails (EPIPE) - the parent task then       *)
(*               returns an error (`?`), both channels close and every     *)
(*               later execute fails; a read on an empty pipe without      *)
(*               writer is EOF.  A child that has decided to die (exit,    *)
(*               abort) is still there for a while: its death is its own   *)
(*               action (CDie), so TLC explores "the parent writes before  *)
(*               / after the child is gone".                               *)
(*                                                                         *)
(* Every request chooses its own fate (plan[k]): ok, panic, overrun (the   *)
(* handler outlives the time limit), oom (allocation beyond the limit =>   *)
(* abort, no reply), exit (process exit, no reply), big (payload larger    *)
(* than the pipe buffer: request and reply take several write/read steps). *)
(* gaps[k] = 1 says the caller waits before request k long enough for a    *)
(* dying child to be gone; 0 says nothing about the timing.                *)
(*                                                                         *)
(* Environment (round 3).  Two things can happen to a sandbox that are not *)
(* requests:                                                               *)
(*   abandon   the caller drops the future returned by execute before the  *)
(*             reply has arrived (plan kinds "abandon": a slow request     *)
(*             that stays within the limit, "abover": one that overruns    *)
(*             it).  The abandoned request gets no reply (history entry    *)
(*             "Abandoned"; if the reply won the race, that reply); its    *)
(*             request stays in the channel / pipe / child and its reply   *)
(*             still arrives in respCh.                                    *)
(*   kill      plan entry "kill" (not a request): the child is killed from *)
(*             outside while it is idle - the parent task waiting for a    *)
(*             request.  History entry "Env".                              *)
(* gaps[k] >= 1 after a kill says the caller sends request k only when the *)
(* killed child is gone; gap kinds 2 and 3 are idle times close to and     *)
(* beyond the time limit (idle time is nobody's execution time: they       *)
(* behave as 1 here, the generator turns them into milliseconds).          *)
(*                                                                         *)
(* Three switches select the code before a "fix:" commit (FALSE) or the    *)
(* repaired code (TRUE):                                                   *)
(*   BreakOutAfterPanic  ca74683: after a Panic reply the child exits but  *)
(*                       the parent neither reaped nor respawned it        *)
(*   DrainAbandoned      e127414: execute counts the requests whose reply  *)
(*                       was not taken (`outstanding`, our `out`) and      *)
(*                       discards those replies before it sends            *)
(*   RespawnOnEpipe      0c4449c: a request whose write fails because the  *)
(*                       child is gone is sent to a fresh child (once)     *)
(*                       instead of ending the task                        *)
(*                                                                         *)
(* Property C18 is stated at the bottom.  Ctrl-C (Error::Interrupted) is   *)
(* not part of the property's quantifier and is not modelled; the timer is *)
(* assumed to fire only for a handler that really outlives the limit.      *)
(***************************************************************************)
EXTENDS Integers, Sequences, FiniteSets, TLC

CONSTANTS MaxReq,              \* longest request sequence
          Kinds,               \* subset of {"ok","slow","panic","overrun","oom","exit","big","abandon","abover","kill"}
          GapKinds,            \* subset of {0, 1, 2, 3}
          UniformGaps,         \* BOOLEAN: all gaps of a sequence equal (bounds the generator)
          PipeCap,             \* chunks a pipe buffers
          BigChunks,           \* chunks of a "big" frame (> PipeCap)
          BreakOutAfterPanic,  \* BOOLEAN, see above
          DrainAbandoned,      \* BOOLEAN, see above
          RespawnOnEpipe       \* BOOLEAN, see above

VARIABLES plan, gaps,                         \* the test case (constant during a behaviour)
          cpc, next, out,                     \* caller: "idle" | "waiting" | "done"; request being / to be executed;
                                              \*   requests sent whose reply was not taken from respCh (Sandbox.outstanding)
          reqCh, respCh, taskAlive,           \* the two channels; the parent task still exists
          ppc, cur, pw, pr, resp, brk, resent,  \* parent task
          gen, cst, creq, cfr, cw, cr, expired,  \* child process
          inPipe, outPipe,                    \* child's stdin / stdout
          got                                 \* history: what each execute returned

pvars == <<ppc, cur, pw, pr, resp, brk, resent>>
cvars == <<gen, cst, creq, cfr, cw, cr, expired>>
vars == <<plan, gaps, cpc, next, out, reqCh, respCh, taskAlive, pvars, cvars, inPipe, outPipe, got>>

Faults == {"panic", "overrun", "oom", "exit", "abover"}   \* the child is replaced after these
Served == {"ok", "big", "slow"}
AbandonKinds == {"abandon", "abover"}
EnvKinds == {"kill"}                                         \* plan entries that are not requests

Chunk(t, k, n) == [t |-> t, req |-> k, n |-> n]
NoChunk == Chunk("none", 0, 0)
NoResp == [class |-> "None", of |-> 0, gen |-> 0]
Reply(c, k, g) == [class |-> c, of |-> k, gen |-> g]

ReqChunks(kind) == IF kind = "big" THEN BigChunks ELSE 1

\* when the last execute has returned the Sandbox is dropped: the task is cancelled, the child killed
Running == cpc # "done"
TaskRuns == taskAlive /\ Running

\* does the child still hold its pipe ends?  ("dying" = has decided to exit/abort, not gone yet)
ChildThere == cst \notin {"none", "dead"}

-----------------------------------------------------------------------------
InitWith(p, g) ==
  /\ plan = p /\ gaps = g
  /\ cpc = "idle" /\ next = 1 /\ out = 0
  /\ reqCh = 0 /\ respCh = NoResp /\ taskAlive = TRUE
  /\ ppc = "spawn" /\ cur = 0 /\ pw = 0 /\ pr = 0 /\ resp = NoResp /\ brk = FALSE /\ resent = FALSE
  /\ gen = 0 /\ cst = "none" /\ creq = 0 /\ cfr = NoChunk /\ cw = 0 /\ cr = 0 /\ expired = FALSE
  /\ inPipe = <<>> /\ outPipe = <<>>
  /\ got = <<>>

Plans == UNION {[1..n -> Kinds] : n \in 1..MaxReq}
GapsFor(p) == {g \in [1..Len(p) -> GapKinds] :
                 /\ g[1] = 0
                 /\ UniformGaps => \A i, j \in 2..Len(p) : g[i] = g[j]}

Init == \E p \in Plans : \E g \in GapsFor(p) : InitWith(p, g)

-----------------------------------------------------------------------------
(* Caller: Sandbox::execute, parent.rs (the caller's side) *)

Return(r) ==
  /\ got' = Append(got, r)
  /\ next' = next + 1
  /\ cpc' = IF next = Len(plan) THEN "done" ELSE "idle"

GapOver == gaps[next] >= 1 => cst # "dying"

\* the caller is about to call execute for request `next`
CanCall == cpc = "idle" /\ next <= Len(plan) /\ plan[next] \notin EnvKinds /\ GapOver

\* the repaired execute first takes the replies of abandoned requests out of the way
Drained == DrainAbandoned => out = 0

CDrain ==      \* `while *outstanding > 0 { recv_response.recv() ... }`: the reply of an abandoned request is discarded
  /\ DrainAbandoned /\ CanCall /\ out > 0 /\ respCh # NoResp
  /\ respCh' = NoResp /\ out' = out - 1
  /\ UNCHANGED <<plan, gaps, cpc, next, reqCh, taskAlive, pvars, cvars, inPipe, outPipe, got>>

CDrainFail ==  \* ... and the channel is empty and closed: Error::Recv
  /\ DrainAbandoned /\ CanCall /\ out > 0 /\ respCh = NoResp /\ ~taskAlive
  /\ Return(Reply("RecvFailed", 0, 0))
  /\ UNCHANGED <<plan, gaps, out, reqCh, respCh, taskAlive, pvars, cvars, inPipe, outPipe>>

CSend ==       \* send_request.send(req): the request is in the channel (bounded 1: it has room)
  /\ CanCall /\ Drained
  /\ taskAlive /\ reqCh = 0
  /\ reqCh' = next /\ cpc' = "waiting" /\ out' = out + 1
  /\ UNCHANGED <<plan, gaps, next, respCh, taskAlive, pvars, cvars, inPipe, outPipe, got>>

CSendFail ==   \* the receiver is gone: Error::Send("request to child")
  /\ CanCall /\ Drained
  /\ ~taskAlive
  /\ Return(Reply("SendFailed", 0, 0))
  /\ UNCHANGED <<plan, gaps, out, reqCh, respCh, taskAlive, pvars, cvars, inPipe, outPipe>>

CRecv ==       \* recv_response.recv() yields what the parent task delivered
  /\ cpc = "waiting" /\ respCh # NoResp
  /\ Return(respCh)
  /\ respCh' = NoResp /\ out' = out - 1
  /\ UNCHANGED <<plan, gaps, reqCh, taskAlive, pvars, cvars, inPipe, outPipe>>

CRecvFail ==   \* the channel is empty and closed: Error::Recv
  /\ cpc = "waiting" /\ respCh = NoResp /\ ~taskAlive
  /\ Return(Reply("RecvFailed", 0, 0))
  /\ reqCh' = 0
  /\ UNCHANGED <<plan, gaps, out, respCh, taskAlive, pvars, cvars, inPipe, outPipe>>

CAbandon ==    \* environment: the future is dropped after the request was sent; request and reply stay where they are
  /\ cpc = "waiting" /\ plan[next] \in AbandonKinds
  /\ Return(Reply("Abandoned", 0, 0))
  /\ UNCHANGED <<plan, gaps, out, reqCh, respCh, taskAlive, pvars, cvars, inPipe, outPipe>>

CAbandonEarly ==   \* ... or while execute is still waiting for the reply of an earlier abandoned request: nothing was sent
  /\ DrainAbandoned /\ CanCall /\ out > 0 /\ plan[next] \in AbandonKinds
  /\ Return(Reply("Abandoned", 0, 0))
  /\ UNCHANGED <<plan, gaps, out, reqCh, respCh, taskAlive, pvars, cvars, inPipe, outPipe>>

\* the parent task is waiting for a request (or will never take one again)
ParentIdle == \/ ppc = "take" /\ reqCh = 0
              \/ ~taskAlive
              \/ ppc = "deliver" /\ respCh # NoResp      \* stuck behind a reply nobody takes (code before e127414)

CKill ==       \* environment: the idle child is killed from outside (SIGKILL); it is gone a little later (CDie)
  /\ cpc = "idle" /\ next <= Len(plan) /\ plan[next] = "kill" /\ GapOver
  /\ ParentIdle
  /\ cst' = IF cst \in {"none", "dead"} THEN cst ELSE "dying"
  /\ Return(Reply("Env", 0, 0))
  /\ UNCHANGED <<plan, gaps, out, reqCh, respCh, taskAlive, pvars, gen, creq, cfr, cw, cr, expired, inPipe, outPipe>>

Caller == CDrain \/ CDrainFail \/ CSend \/ CSendFail \/ CRecv \/ CRecvFail \/ CAbandon \/ CAbandonEarly \/ CKill

-----------------------------------------------------------------------------
(* Parent task: run_task, parent.rs:46-150 *)

PSpawn ==      \* Command::spawn, parent.rs:56-69: a new child with fresh pipes
  /\ TaskRuns /\ ppc = "spawn"
  /\ gen' = gen + 1 /\ cst' = "boot" /\ creq' = 0 /\ cfr' = NoChunk /\ cw' = 0 /\ cr' = 0 /\ expired' = FALSE
  /\ inPipe' = <<>> /\ outPipe' = <<>>
  /\ ppc' = "hs_write"
  /\ UNCHANGED <<plan, gaps, cpc, next, out, reqCh, respCh, taskAlive, cur, pw, pr, resp, brk, resent, got>>

PHsWrite ==    \* write the config frame, parent.rs:71
  /\ TaskRuns /\ ppc = "hs_write" /\ ChildThere
  /\ inPipe' = Append(inPipe, Chunk("cfg", 0, 1))
  /\ ppc' = "hs_read"
  /\ UNCHANGED <<plan, gaps, cpc, next, out, reqCh, respCh, taskAlive, cur, pw, pr, resp, brk, resent, cvars, outPipe, got>>

PHsRead ==     \* read the handshake response, parent.rs:73-76
  /\ TaskRuns /\ ppc = "hs_read" /\ outPipe # <<>> /\ Head(outPipe).t = "hs"
  /\ outPipe' = Tail(outPipe)
  /\ ppc' = IF resent THEN "write" ELSE "take"     \* a request waiting to be sent again goes first
  /\ UNCHANGED <<plan, gaps, cpc, next, out, reqCh, respCh, taskAlive, cur, pw, pr, resp, brk, resent, cvars, inPipe, got>>

PTake ==       \* recv_request.recv(), parent.rs:79
  /\ TaskRuns /\ ppc = "take" /\ reqCh # 0
  /\ cur' = reqCh /\ reqCh' = 0 /\ pw' = 0
  /\ ppc' = "write"
  /\ UNCHANGED <<plan, gaps, cpc, next, out, respCh, taskAlive, pr, resp, brk, resent, cvars, inPipe, outPipe, got>>

CanWrite == ChildThere /\ Len(inPipe) < PipeCap

PWriteMore ==  \* frame.write_async, not the last chunk (only "big" requests)
  /\ TaskRuns /\ ppc = "write" /\ CanWrite
  /\ pw + 1 < ReqChunks(plan[cur])
  /\ inPipe' = Append(inPipe, Chunk("req", cur, ReqChunks(plan[cur])))
  /\ pw' = pw + 1
  /\ UNCHANGED <<plan, gaps, cpc, next, out, reqCh, respCh, taskAlive, ppc, cur, pr, resp, brk, resent, cvars, outPipe, got>>

PWriteLast ==  \* the frame is written; the timer starts
  /\ TaskRuns /\ ppc = "write" /\ CanWrite
  /\ pw + 1 = ReqChunks(plan[cur])
  /\ inPipe' = Append(inPipe, Chunk("req", cur, ReqChunks(plan[cur])))
  /\ pw' = 0 /\ pr' = 0 /\ resent' = FALSE
  /\ ppc' = "read"
  /\ UNCHANGED <<plan, gaps, cpc, next, out, reqCh, respCh, taskAlive, cur, resp, brk, cvars, outPipe, got>>

PWriteGone ==  \* EPIPE, repaired code: the child died while idle; replace it and send this request to the new one (once)
  /\ TaskRuns /\ ppc = "write" /\ ~ChildThere
  /\ RespawnOnEpipe /\ ~resent
  /\ resent' = TRUE /\ pw' = 0
  /\ inPipe' = <<>> /\ outPipe' = <<>>
  /\ ppc' = "spawn"
  /\ UNCHANGED <<plan, gaps, cpc, next, out, reqCh, respCh, taskAlive, cur, pr, resp, brk, cvars, got>>

PWriteFail ==  \* EPIPE otherwise: `?` returns from run_task; both channel ends of the task are dropped
  /\ TaskRuns /\ ppc = "write" /\ ~ChildThere
  /\ (~RespawnOnEpipe \/ resent)
  /\ taskAlive' = FALSE
  /\ ppc' = "gone"
  /\ UNCHANGED <<plan, gaps, cpc, next, out, reqCh, respCh, cur, pw, pr, resp, brk, resent, cvars, inPipe, outPipe, got>>

PReadMore ==   \* frame.read_async, more of the frame to come
  /\ TaskRuns /\ ppc = "read" /\ outPipe # <<>>
  /\ pr + 1 < Head(outPipe).n
  /\ outPipe' = Tail(outPipe)
  /\ pr' = pr + 1
  /\ UNCHANGED <<plan, gaps, cpc, next, out, reqCh, respCh, taskAlive, ppc, cur, pw, resp, brk, resent, cvars, inPipe, got>>

PReadLast ==   \* a complete frame: Ok(result) or Err(Panic), parent.rs:102-115
  /\ TaskRuns /\ ppc = "read" /\ outPipe # <<>>
  /\ pr + 1 = Head(outPipe).n
  /\ outPipe' = Tail(outPipe)
  /\ pr' = 0
  /\ LET c == Head(outPipe) IN
       IF c.t = "panic"
       THEN resp' = Reply("Panic", c.req, gen) /\ brk' = BreakOutAfterPanic
       ELSE resp' = Reply("Ok", c.req, gen) /\ brk' = FALSE
  /\ ppc' = "deliver"
  /\ UNCHANGED <<plan, gaps, cpc, next, out, reqCh, respCh, taskAlive, cur, pw, resent, cvars, inPipe, got>>

PReadEof ==    \* UnexpectedEof (also in the middle of a frame): Crashed, parent.rs:116-119
  /\ TaskRuns /\ ppc = "read" /\ outPipe = <<>> /\ ~ChildThere
  /\ resp' = Reply("Crashed", 0, 0) /\ brk' = TRUE
  /\ pr' = 0
  /\ ppc' = "deliver"
  /\ UNCHANGED <<plan, gaps, cpc, next, out, reqCh, respCh, taskAlive, cur, pw, resent, cvars, inPipe, outPipe, got>>

PTimeout ==    \* the timer fires while the handler of the current request is still running, parent.rs:125-128
  /\ TaskRuns /\ ppc = "read" /\ cst = "sleeping" /\ creq = cur /\ ~expired
  /\ resp' = Reply("Timeout", 0, 0) /\ brk' = TRUE
  /\ expired' = TRUE
  /\ pr' = 0
  /\ ppc' = "deliver"
  /\ UNCHANGED <<plan, gaps, cpc, next, out, reqCh, respCh, taskAlive, cur, pw, resent, gen, cst, creq, cfr, cw, cr, inPipe, outPipe, got>>

PDeliver ==    \* send_response.send(response), parent.rs:131-134
  /\ TaskRuns /\ ppc = "deliver" /\ respCh = NoResp
  /\ respCh' = resp
  /\ resp' = NoResp
  /\ ppc' = IF brk THEN "kill" ELSE "take"
  /\ UNCHANGED <<plan, gaps, cpc, next, out, reqCh, taskAlive, cur, pw, pr, brk, resent, cvars, inPipe, outPipe, got>>

PKill ==       \* process.kill(); break: the old process and its pipes are dropped, parent.rs:136-147
  /\ TaskRuns /\ ppc = "kill"
  /\ cst' = "dead"
  /\ inPipe' = <<>> /\ outPipe' = <<>>
  /\ brk' = FALSE
  /\ ppc' = "spawn"
  /\ UNCHANGED <<plan, gaps, cpc, next, out, reqCh, respCh, taskAlive, cur, pw, pr, resp, resent, gen, creq, cfr, cw, cr, expired, got>>

Parent == PSpawn \/ PHsWrite \/ PHsRead \/ PTake \/ PWriteMore \/ PWriteLast \/ PWriteGone \/ PWriteFail
          \/ PReadMore \/ PReadLast \/ PReadEof \/ PTimeout \/ PDeliver \/ PKill

-----------------------------------------------------------------------------
(* Child: become_child, child.rs:22-118, with the test service's handler *)

CHsRead ==     \* read the config, child.rs:52-54
  /\ Running /\ cst = "boot" /\ inPipe # <<>> /\ Head(inPipe).t = "cfg"
  /\ inPipe' = Tail(inPipe)
  /\ cst' = "hs"
  /\ UNCHANGED <<plan, gaps, cpc, next, out, reqCh, respCh, taskAlive, pvars, gen, creq, cfr, cw, cr, expired, outPipe, got>>

CHsWrite ==    \* write the handshake response, child.rs:63-72
  /\ Running /\ cst = "hs" /\ Len(outPipe) < PipeCap
  /\ outPipe' = Append(outPipe, Chunk("hs", 0, 1))
  /\ cst' = "idle"
  /\ UNCHANGED <<plan, gaps, cpc, next, out, reqCh, respCh, taskAlive, pvars, gen, creq, cfr, cw, cr, expired, inPipe, got>>

CReadMore ==   \* frame.read_sync, more of the frame to come
  /\ Running /\ cst = "idle" /\ inPipe # <<>>
  /\ cr + 1 < Head(inPipe).n
  /\ inPipe' = Tail(inPipe)
  /\ cr' = cr + 1
  /\ UNCHANGED <<plan, gaps, cpc, next, out, reqCh, respCh, taskAlive, pvars, gen, cst, creq, cfr, cw, expired, outPipe, got>>

CReadLast ==   \* the request is complete, child.rs:90
  /\ Running /\ cst = "idle" /\ inPipe # <<>>
  /\ cr + 1 = Head(inPipe).n
  /\ inPipe' = Tail(inPipe)
  /\ cr' = 0
  /\ creq' = Head(inPipe).req
  /\ cst' = "handling"
  /\ UNCHANGED <<plan, gaps, cpc, next, out, reqCh, respCh, taskAlive, pvars, gen, cfr, cw, expired, outPipe, got>>

CHandle ==     \* service.handle(request), child.rs:95: the request decides what happens
  /\ Running /\ cst = "handling"
  /\ LET kind == plan[creq] IN
       CASE kind \in Served \cup {"abandon"}  -> cst' = "replying" /\ cfr' = Chunk("ok", creq, ReqChunks(kind))
         [] kind = "panic"                   -> cst' = "replying" /\ cfr' = Chunk("panic", creq, 1)
         [] kind \in {"overrun", "abover"}   -> cst' = "sleeping" /\ cfr' = cfr
         [] OTHER                            -> cst' = "dying" /\ cfr' = cfr       \* oom (abort), exit
  /\ cw' = 0
  /\ UNCHANGED <<plan, gaps, cpc, next, out, reqCh, respCh, taskAlive, pvars, gen, creq, cr, expired, inPipe, outPipe, got>>

CWriteMore ==  \* frame.write_sync, not the last chunk
  /\ Running /\ cst = "replying" /\ Len(outPipe) < PipeCap
  /\ cw + 1 < cfr.n
  /\ outPipe' = Append(outPipe, cfr)
  /\ cw' = cw + 1
  /\ UNCHANGED <<plan, gaps, cpc, next, out, reqCh, respCh, taskAlive, pvars, gen, cst, creq, cfr, cr, expired, inPipe, got>>

CWriteLast ==  \* reply written; after a panic reply the child decides to exit(1), child.rs:109-116
  /\ Running /\ cst = "replying" /\ Len(outPipe) < PipeCap
  /\ cw + 1 = cfr.n
  /\ outPipe' = Append(outPipe, cfr)
  /\ cw' = 0
  /\ cst' = IF cfr.t = "panic" THEN "dying" ELSE "idle"
  /\ UNCHANGED <<plan, gaps, cpc, next, out, reqCh, respCh, taskAlive, pvars, gen, creq, cfr, cr, expired, inPipe, got>>

CWake ==       \* an overrunning handler that was not killed yet finishes late
  /\ Running /\ cst = "sleeping" /\ expired
  /\ cst' = "replying" /\ cfr' = Chunk("ok", creq, 1) /\ cw' = 0
  /\ UNCHANGED <<plan, gaps, cpc, next, out, reqCh, respCh, taskAlive, pvars, gen, creq, cr, expired, inPipe, outPipe, got>>

CDie ==        \* OS: the process is gone, its pipe ends are closed (what it wrote stays readable)
  /\ Running /\ cst = "dying"
  /\ cst' = "dead"
  /\ UNCHANGED <<plan, gaps, cpc, next, out, reqCh, respCh, taskAlive, pvars, gen, creq, cfr, cw, cr, expired, inPipe, outPipe, got>>

Child == CHsRead \/ CHsWrite \/ CReadMore \/ CReadLast \/ CHandle \/ CWriteMore \/ CWriteLast \/ CWake \/ CDie

-----------------------------------------------------------------------------
Next == Caller \/ Parent \/ Child

Spec == Init /\ [][Next]_vars

Fairness == WF_vars(Caller) /\ WF_vars(Parent) /\ WF_vars(Child)
FairSpec == Spec /\ Fairness

-----------------------------------------------------------------------------
(* Property C18 *)

\* What the property statement allows as the reply to a request of each kind.  An abandoned request gets no reply
\* ("Abandoned" is the caller's own mark); if its reply won the race against the caller giving up, it is that reply.
Base(kind) ==
  CASE kind \in Served         -> {"Ok"}         \* its own result
    [] kind = "panic"          -> {"Panic"}
    [] kind = "overrun"        -> {"Timeout"}
    [] kind \in {"oom","exit"} -> {"Crashed"}
    [] kind = "abandon"        -> {"Abandoned", "Ok"}
    [] kind = "abover"         -> {"Abandoned", "Timeout"}
    [] kind = "kill"           -> {"Env"}

\* The child was killed from outside before request k and no request has reached a child since (the entries between
\* are further kills or abandoned calls, which may never have sent anything).  When nothing says that the killed child
\* was gone before request k was sent (all gaps since the kill are 0), the request may have been handed to the dying
\* child: "Crashed" names what happened to it.  Once the child is known to be gone (a gap >= 1) the request is served
\* normally by a restarted child.
KillChain(n) == \E j \in 1..(n - 1) : /\ plan[j] = "kill"
                                     /\ \A i \in (j + 1)..(n - 1) : plan[i] \in AbandonKinds \cup EnvKinds /\ gaps[i] = 0
AdmissibleAt(k) ==
  Base(plan[k]) \cup (IF plan[k] \notin EnvKinds /\ KillChain(k) /\ gaps[k] = 0 THEN {"Crashed"} ELSE {})

TypeOK ==
  /\ cpc \in {"idle", "waiting", "done"} /\ next \in 1..(Len(plan) + 1) /\ out \in 0..Len(plan)
  /\ reqCh \in 0..Len(plan) /\ taskAlive \in BOOLEAN /\ resent \in BOOLEAN
  /\ ppc \in {"spawn", "hs_write", "hs_read", "take", "write", "read", "deliver", "kill", "gone"}
  /\ cst \in {"none", "boot", "hs", "idle", "handling", "replying", "sleeping", "dying", "dead"}
  /\ Len(inPipe) <= PipeCap /\ Len(outPipe) <= PipeCap
  /\ DrainAbandoned => out <= 1

\* each plan entry is answered exactly once: one history entry per finished call, and the only replies that may be
\* waiting while no call is in progress are those of abandoned requests (which nobody will be given)
OneReplyEach ==
  /\ Len(got) = next - 1
  /\ cpc \in {"idle", "done"} /\ out = 0 => respCh = NoResp
  /\ cpc = "done" => Len(got) = Len(plan)

\* reply k is the result of request k or the error naming what happened to request k
OwnReply ==
  \A k \in DOMAIN got : /\ got[k].class \in AdmissibleAt(k)
                        /\ got[k].class \in {"Ok", "Panic"} => got[k].of = k

\* a request that does nothing wrong gets its own result, whatever happened before it
Isolation ==
  \A k \in DOMAIN got : plan[k] \in Served /\ "Crashed" \notin AdmissibleAt(k) => got[k].class = "Ok" /\ got[k].of = k

\* no frame produced for request i is ever delivered to a request j # i (in particular not the reply of an abandoned i)
NoStale == \A k \in DOMAIN got : got[k].of \in {0, k}

AllGood == OneReplyEach /\ OwnReply /\ Isolation /\ NoStale

\* every call returns (checked under FairSpec, without a state constraint)
Progress == <>(cpc = "done")

\* the transcription's respawn pattern for plans of requests only: a reply comes from child number 1 + (faults before it)
ExpectedGen(k) == 1 + Cardinality({i \in 1..(k - 1) : plan[i] \in Faults})
GenPattern == (\A i \in DOMAIN plan : plan[i] \notin EnvKinds \cup AbandonKinds) =>
                 \A k \in DOMAIN got : got[k].class \in {"Ok", "Panic"} => got[k].gen = ExpectedGen(k)

-----------------------------------------------------------------------------
(* VIEW.  The future of a state depends on the requests still to be executed  *)
(* and on the requests in flight (at most the current one and an abandoned    *)
(* one), not on the served prefix: request numbers are taken relative to      *)
(* `next`, every place that holds a request number also shows that request's  *)
(* kind, the history is reduced to its verdict (AllGood: a state with a bad   *)
(* reply stays distinct from every good state and so is seen by the           *)
(* invariants), `gen` only feeds the history.  ViewSound states what this     *)
(* relies on; MC_Sandbox_noview.cfg is the cross-check without VIEW.          *)
Rel(k) == IF k = 0 THEN 1 ELSE k - next
KindAt(k) == IF k = 0 THEN "-" ELSE plan[k]
RelChunk(c) == [t |-> c.t, req |-> Rel(c.req), kind |-> KindAt(c.req), n |-> c.n]
RelSeq(s) == [i \in DOMAIN s |-> RelChunk(s[i])]
RelResp(r) == [class |-> r.class, of |-> Rel(r.of)]

View == <<SubSeq(plan, next, Len(plan)), SubSeq(gaps, next, Len(gaps)),
          KillChain(next),
          cpc, out, Rel(reqCh), KindAt(reqCh), RelResp(respCh), taskAlive,
          ppc, Rel(cur), IF ppc = "write" \/ resent THEN KindAt(cur) ELSE "-", pw, pr, RelResp(resp), brk, resent,
          cst, Rel(creq), IF cst = "handling" THEN KindAt(creq) ELSE "-", RelChunk(cfr), cw, cr, expired,
          RelSeq(inPipe), RelSeq(outPipe), AllGood>>

ViewSound ==   \* plan is only ever consulted at a request in flight: the one being executed or an abandoned one
  /\ (cst = "handling" => creq # 0 /\ creq <= next /\ (creq = next \/ out > 0 \/ ~DrainAbandoned))
  /\ (taskAlive /\ ppc = "write" => cur # 0 /\ cur <= next /\ ((cur = next /\ cpc = "waiting") \/ out > 0 \/ ~DrainAbandoned))
=============================================================================
