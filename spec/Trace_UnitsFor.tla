---------------------------- MODULE Trace_UnitsFor ----------------------------
(***************************************************************************)
(* Judges recorded `units for X` / `factorize X` replies of the real code  *)
(* against UnitsFor.tla (property C17) over the registry dump of the       *)
(* context that answered (IOEnv.ENV: units with dimensionality, alias flag *)
(* and category id; base units and their long names; the category tables;  *)
(* the quantities; the SI derived units of the decomposition table).       *)
(*                                                                         *)
(* A line is a group: the same X written in several forms (a quantity      *)
(* name, expressions of base units):                                       *)
(*    kind   "unitsfor" | "factorize"                                      *)
(*    forms  sequence of [q : query text, obs : the reply]                 *)
(* The specification lexes and parses each text itself (Lexer, Grammar),   *)
(* takes X's dimensionality from the quantity table (a bare quantity name) *)
(* or evaluates the expression (Eval over the base units), decides the     *)
(* reply by UnitsForOK / FactorizeOK and requires every form to give the   *)
(* same answer as the first one.                                           *)
(*   <<"REJECT", line, json of [f: form, what, detail]>>                   *)
(*   <<"SILENT", line, form>>    no reply within the time limit            *)
(*   <<"CRASH", line, form>>     the code panicked / aborted               *)
(*   <<"BADGROUP", line, form>>  the forms of a group do not denote one    *)
(*                               dimensionality (an error of the driver)   *)
(***************************************************************************)
EXTENDS Eval, UnitsFor, TLC, Json, IOUtils

Rec == ndJsonDeserialize(IOEnv.TRACE)
NRec == Len(Rec)
Env == JsonDeserialize(IOEnv.ENV)

CatName(id) ==
  IF \E i \in DOMAIN Env.category_names : Env.category_names[i].id = id
  THEN Env.category_names[CHOOSE i \in DOMAIN Env.category_names : Env.category_names[i].id = id].name
  ELSE NoCat
CatOf(name) ==
  IF \E i \in DOMAIN Env.categories : Env.categories[i].name = name
  THEN CatName(Env.categories[CHOOSE i \in DOMAIN Env.categories : Env.categories[i].name = name].cat)
  ELSE NoCat
LongOf(b) ==
  IF \E i \in DOMAIN Env.long_names : Env.long_names[i].short = b
  THEN Env.long_names[CHOOSE i \in DOMAIN Env.long_names : Env.long_names[i].short = b].long
  ELSE <<>>

BaseNames == {Env.base[i] : i \in DOMAIN Env.base}
QNames == {Env.quantities[i].name : i \in DOMAIN Env.quantities}

Reg ==
  [units |-> {[name |-> Env.units[i].name, d |-> DFromJson(Env.units[i].d), alias |-> Env.units[i].alias,
               cat |-> IF "cat" \in DOMAIN Env.units[i] THEN CatName(Env.units[i].cat) ELSE NoCat] : i \in DOMAIN Env.units},
   base |-> {[name |-> b, long |-> LongOf(b), cat |-> CatOf(b),
              longcat |-> IF LongOf(b) = <<>> THEN NoCat ELSE CatOf(LongOf(b))] : b \in BaseNames},
   quant |-> [n \in QNames |-> DFromJson(Env.quantities[CHOOSE i \in DOMAIN Env.quantities : Env.quantities[i].name = n].dims)]]

\* the expressions X is written in use base units and the SI derived units of the decomposition table (value 1)
DNames == {Env.decomposition[i].name : i \in DOMAIN Env.decomposition}
JEnv == [base |-> BaseNames,
         units |-> [n \in DNames |-> VNum(QOne, DFromJson(Env.decomposition[CHOOSE i \in DOMAIN Env.decomposition : Env.decomposition[i].name = n].dims))],
         prefixes |-> <<>>, ans |-> VNone, subst |-> {}, closed |-> TRUE]

VARIABLE l

\* X's dimensionality: [ok, d]
XDims(qa, kind) ==
  IF qa.k # kind THEN [ok |-> FALSE, d |-> DEmpty]
  ELSE IF qa.e.k = "unit" /\ qa.e.name \in QNames THEN [ok |-> TRUE, d |-> Reg.quant[qa.e.name]]
  ELSE LET val == Ev(qa.e, JEnv) IN IF val.t = "num" THEN [ok |-> TRUE, d |-> val.d] ELSE [ok |-> FALSE, d |-> DEmpty]

RECURSIVE Flatten(_, _)
Flatten(cats, i) ==
  IF i > Len(cats) THEN <<>>
  ELSE LET c == IF "cat" \in DOMAIN cats[i] THEN cats[i].cat ELSE NoCat
       IN [j \in DOMAIN cats[i].units |-> <<c, cats[i].units[j]>>] \o Flatten(cats, i + 1)

\* (one string: TLC's pretty printer wraps tuples of several medium-sized elements over several lines)
Rej(i, j, what, detail) == PrintT(<<"REJECT", i, ToJson([f |-> j, what |-> what, detail |-> detail])>>)

UnitsForVerdict(i, j, d, obs) ==
  IF obs.t # "unitsfor" THEN Rej(i, j, "kind", obs.t)
  ELSE \E listed \in {Flatten(obs.cats, 1)} : \E req \in {Required(Reg, d)} : \E opt \in {Optional(Reg, d)} :
       /\ IF EachOnce(listed) THEN TRUE ELSE Rej(i, j, "duplicate", {listed[a][2] : a \in {x \in DOMAIN listed : \E y \in DOMAIN listed : y # x /\ listed[y][2] = listed[x][2]}})
       /\ IF Names(req) \subseteq Names(ListedSet(listed)) THEN TRUE ELSE Rej(i, j, "missing", Names(req) \ Names(ListedSet(listed)))
       /\ IF BaseListed(Reg, d, listed) THEN TRUE ELSE Rej(i, j, "missing", "the base unit itself")
       /\ IF Names(ListedSet(listed)) \subseteq Names(req \cup opt) THEN TRUE ELSE Rej(i, j, "foreign", Names(ListedSet(listed)) \ Names(req \cup opt))
       /\ IF \A p \in ListedSet(listed) : p[2] \in Names(req \cup opt) => p \in req \cup opt THEN TRUE
          ELSE Rej(i, j, "category", {p \in ListedSet(listed) : p[2] \in Names(req \cup opt) /\ p \notin req \cup opt})

FactorizeVerdict(i, j, d, obs) ==
  IF obs.t # "factorize" THEN Rej(i, j, "kind", obs.t)
  ELSE /\ IF \A a \in DOMAIN obs.list : ProductSound(Reg, d, obs.list[a]) THEN TRUE
          ELSE Rej(i, j, "unsound", {obs.list[a] : a \in {x \in DOMAIN obs.list : ~ProductSound(Reg, d, obs.list[x])}})
       /\ IF NoDuplicateProducts(obs.list) THEN TRUE
          ELSE Rej(i, j, "dupproduct", {obs.list[a] : a \in {x \in DOMAIN obs.list : \E y \in DOMAIN obs.list : y # x /\ AsSet(obs.list[y]) = AsSet(obs.list[x])}})

\* the answers of two forms are the same (as sets of (category, unit) / as sets of products)
SameAnswer(kind, o1, o2) ==
  IF o1.t # kind \/ o2.t # kind THEN o1.t = o2.t
  ELSE IF kind = "unitsfor" THEN ListedSet(Flatten(o1.cats, 1)) = ListedSet(Flatten(o2.cats, 1))
  ELSE {AsSet(o1.list[a]) : a \in DOMAIN o1.list} = {AsSet(o2.list[a]) : a \in DOMAIN o2.list}

RefForm(ev) == CHOOSE j \in DOMAIN ev.forms :
                 /\ ev.forms[j].obs.t # "crash" /\ \A k \in 1..(j - 1) : ev.forms[k].obs.t = "crash"

FormVerdict(ev, i, j, d0) ==
  LET f == ev.forms[j] IN
  \E xd \in {XDims(ParseQueryText(f.q), ev.kind)} :
  IF ~xd.ok \/ ~DEq(xd.d, d0) THEN PrintT(<<"BADGROUP", i, j>>)
  ELSE IF f.obs.t = "crash" THEN (IF f.obs.c = "timeout" THEN PrintT(<<"SILENT", i, j>>) ELSE PrintT(<<"CRASH", i, j>>))
  ELSE /\ IF ev.kind = "unitsfor" THEN UnitsForVerdict(i, j, xd.d, f.obs) ELSE FactorizeVerdict(i, j, xd.d, f.obs)
       /\ \E ref \in {RefForm(ev)} :      \* every form answers like the first form that answered
            IF j > ref /\ ~SameAnswer(ev.kind, ev.forms[ref].obs, f.obs) THEN Rej(i, j, "differs", ref) ELSE TRUE

Verdict(ev, i) ==
  \E x0 \in {XDims(ParseQueryText(ev.forms[1].q), ev.kind)} :
    IF ~x0.ok THEN PrintT(<<"BADGROUP", i, 1>>)
    ELSE \A j \in DOMAIN ev.forms : FormVerdict(ev, i, j, x0.d)

Init == l = 1
Next == l <= NRec /\ Verdict(Rec[l], l) /\ l' = l + 1
Spec == Init /\ [][Next]_l
=============================================================================
