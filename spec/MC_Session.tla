------------------------------ MODULE MC_Session ------------------------------
(***************************************************************************)
(* Bounded instance of Session: 17 concrete queries in 13 classes, a table *)
(* for the abstract function Reply, all histories up to MaxLen with the    *)
(* feature flag on and off.  Values are symbolic: <<base, k>> is "the      *)
(* value of query base, plus k" and <<"none", 0>> is "no previous answer". *)
(* Every maximal history is printed as a REPLAY line: per step the query,  *)
(* the kind of reply the table predicts and the step whose result `ans`    *)
(* holds afterwards (0 = none).                                            *)
(***************************************************************************)
EXTENDS Session, TLC, Json

CONSTANTS MaxLen,
          Fault       \* "none", or a deliberately wrong step function (sanity: the properties must notice)
VARIABLES hist, src

MCNoAns == <<"none", 0>>
Numbers == {"n1", "n2", "n3"}          \* n1, n3 dimensionless, n2 carries a unit
MCQueries == Numbers \cup {"tm", "dt", "su", "cv", "cf", "ul", "df", "uf", "fz", "se", "er", "a1", "a2", "a3"}
MCPlain(q) == q \notin {"cv", "cf", "ul", "uf", "fz", "se"}

R(kind, raw) == [kind |-> kind, raw |-> raw]
Dimless(a) == a[1] \in {"n1", "n3"}

MCReply(q, a) ==
  CASE q \in Numbers -> R("number", <<q, 0>>)
    [] q = "tm" -> R("duration", <<"tm", 0>>)          \* a time value: shown as a duration breakdown
    [] q = "dt" -> R("date", MCNoAns)
    [] q = "su" -> R("subst", MCNoAns)
    [] q = "cv" -> R("conversion", MCNoAns)
    [] q = "cf" -> R("conversion", MCNoAns)            \* format-only conversion (-> hex, -> digits N, -> frac): no target unit
    [] q = "ul" -> R("unitlist", MCNoAns)
    [] q = "df" -> R("def", MCNoAns)
    [] q = "uf" -> R("unitsfor", MCNoAns)
    [] q = "fz" -> R("factorize", MCNoAns)
    [] q = "se" -> R("search", MCNoAns)
    [] q = "er" -> R("error", MCNoAns)
    [] q = "a1" -> IF a # MCNoAns /\ Dimless(a) THEN R("number", <<a[1], a[2] + 1>>)     \* ans + 1
                   ELSE R("error", MCNoAns)          \* nothing to add to, or a unit mismatch
    [] q \in {"a2", "a3"} -> IF a = MCNoAns THEN R("error", MCNoAns)               \* ANS, _
                             ELSE R(IF a[1] = "tm" THEN "duration" ELSE "number", a)

FaultyAns(q, r) ==
  CASE Fault = "conv" /\ q = "cv" -> <<"n1", 0>>            \* a conversion stores a value
    [] Fault = "err" /\ r.kind = "error" -> MCNoAns           \* a failing query clears the answer
    [] Fault = "off" /\ Numeric(q, r) -> r.raw                \* stored although the flag is off
    [] OTHER -> AnsAfter(save, ans, q, r)

Do(q) ==
  /\ Len(hist) < MaxLen
  /\ IF Fault = "none" THEN Submit(q)
     ELSE /\ ans' = FaultyAns(q, MCReply(q, ans))
          /\ db' = db /\ save' = save /\ settings' = settings /\ last' = q
          /\ seen' = seen \cup {<<q, ans, MCReply(q, ans)>>}
  /\ src' = IF save /\ Numeric(q, MCReply(q, ans)) THEN Len(hist) + 1 ELSE src
  /\ hist' = Append(hist, [q |-> q, kind |-> MCReply(q, ans).kind, ans |-> src'])

PlainNumber == \E q \in Numbers : Do(q)
TimeValue == Do("tm")
OtherPlain == \E q \in {"dt", "su", "df"} : Do(q)
Command == \E q \in {"cv", "cf", "ul", "uf", "fz", "se"} : Do(q)
Failing == Do("er")
UseAns == \E q \in {"a1", "a2", "a3"} : Do(q)

MCInit == /\ db = "bundled" /\ ans = MCNoAns /\ save \in BOOLEAN /\ settings = [humanize |-> FALSE]
          /\ seen = {} /\ last = "" /\ hist = <<>> /\ src = 0
MCNext == PlainNumber \/ TimeValue \/ OtherPlain \/ Command \/ Failing \/ UseAns
MCSpec == MCInit /\ [][MCNext]_<<svars, hist, src>>

\* src is the step whose numeric result ans holds
SrcOK == Fault = "none" => (src = 0) = (ans = MCNoAns)

\* one string per line (TLC wraps long tuples): s = flag, q = queries, k = predicted kinds, a = step `ans` comes from
Emit == Len(hist) = MaxLen =>
          PrintT("REPLAY " \o ToJson([s |-> save, q |-> [i \in DOMAIN hist |-> hist[i].q],
                                      k |-> [i \in DOMAIN hist |-> hist[i].kind],
                                      a |-> [i \in DOMAIN hist |-> hist[i].ans]]))
=============================================================================
