----------------------------- MODULE MC_DateTime -----------------------------
(***************************************************************************)
(* Self-test of DateTime.tla, run by the C14 check at every start:         *)
(* calendar laws (successor days, inverse, 400-year period), anchor days   *)
(* known from outside (1970-01-01 is day 719162 and a Thursday, ...),      *)
(* instants against native arithmetic, and the readings of a few literals. *)
(***************************************************************************)
EXTENDS DateTime, TLC

Years == {-400, -399, -100, -4, -1, 0, 1, 4, 100, 400, 1582, 1600, 1900, 1969, 1970, 2000, 2016, 2100, 9999}

\* every day of the chosen years: the next calendar day is the next day number; CivilFromDays inverts
NextCivil(y, m, d) == IF d < DaysInMonth(y, m) THEN <<y, m, d + 1>>
                      ELSE IF m < 12 THEN <<y, m + 1, 1>> ELSE <<y + 1, 1, 1>>
Successor == \A y \in Years : \A m \in 1..12 : \A d \in 1..DaysInMonth(y, m) :
               LET n == NextCivil(y, m, d) IN
               /\ DaysFromCivil(n[1], n[2], n[3]) = DaysFromCivil(y, m, d) + 1
               /\ CivilFromDays(DaysFromCivil(y, m, d)) = <<y, m, d>>
               /\ DaysFromOrdinal(y, DaysFromCivil(y, m, d) - DaysBeforeYear(y) + 1) = DaysFromCivil(y, m, d)
Period == \A y \in -800..10000 : (y % 97 = 0) => DaysBeforeYear(y + 400) - DaysBeforeYear(y) = 146097
LeapRule == /\ IsLeap(2000) /\ IsLeap(2016) /\ IsLeap(4) /\ IsLeap(400) /\ IsLeap(0) /\ IsLeap(-4) /\ IsLeap(-400)
            /\ ~IsLeap(1900) /\ ~IsLeap(2100) /\ ~IsLeap(100) /\ ~IsLeap(1582) /\ ~IsLeap(1) /\ ~IsLeap(9999) /\ ~IsLeap(-100)
            /\ \A y \in Years : DaysInYear(y) = DaysBeforeYear(y + 1) - DaysBeforeYear(y)
Anchors == /\ DaysFromCivil(1, 1, 1) = 0 /\ WeekdayOf(0) = 1
           /\ DaysFromCivil(1970, 1, 1) = 719162 /\ WeekdayOf(719162) = 4
           /\ DaysFromCivil(2000, 3, 1) = 730179
           /\ WeekdayOf(DaysFromCivil(2000, 1, 1)) = 6
           /\ DaysFromCivil(1582, 10, 15) = 577735 /\ WeekdayOf(577735) = 5
           /\ DaysFromCivil(9999, 12, 31) = 3652058
           /\ DaysFromCivil(0, 12, 31) = -1 /\ WeekdayOf(-1) = 7
           /\ DaysFromCivil(0, 1, 1) = -366

\* instants against native integers where they fit (microsecond scale on small day counts)
Instants == /\ InstantOf(0, 0, 0) = ZZero
            /\ InstantOf(0, 2, 5) = ZFromInt(2000000005)
            /\ InstantOf(-1, 86399, 999999999) = ZFromInt(-1)
            /\ ZEq(InstantOf(1, -3600, 0), ZMul(ZFromInt(82800), ZBillion))
            /\ ZEq(CivilInstant(1, 1, 1, 0, 0, 0, 0, 50400), ZMul(ZFromInt(-50400), ZBillion))
            /\ QEq(Diff(CivilInstant(2000, 3, 1, 0, 0, 0, 0, 0), CivilInstant(2000, 2, 28, 0, 0, 0, 0, 0)), QFromInt(172800))
            /\ QEq(Diff(CivilInstant(1900, 3, 1, 0, 0, 0, 0, 0), CivilInstant(1900, 2, 28, 0, 0, 0, 0, 0)), QFromInt(86400))
            /\ WholeNanos(QFrac(1, 1000000000)) /\ ~WholeNanos(QFrac(1, 2000000000))
            /\ ZEq(AddDur(ZZero, QFrac(-5, 10000)), ZFromInt(-500000))
            /\ AddDurDefined(ZZero, QFrac(5, 10000)) /\ ~AddDurDefined(ZZero, QAdd(MaxDurSecs, QOne))
            /\ OffsetValid(86399) /\ OffsetValid(-86399) /\ ~OffsetValid(86400) /\ ~OffsetValid(-86400)

Toks(text) == Lex(text)[1].toks
S(text) == LitSummary(Toks(text))
OneFixed(text, inst) == LET s == S(text) IN ~s.silent /\ s.ninvalid = 0 /\ {r.inst : r \in s.valid} = {inst}
                                             /\ \A r \in s.valid : r.c = "fixed" /\ ~r.soft /\ r.win = 0
Refused(text) == LET s == S(text) IN ~s.silent /\ s.valid = {} /\ s.partial = {}
\* "#2000-02-29T23:59:59.5 -04:00#"
L1 == <<35,50,48,48,48,45,48,50,45,50,57,84,50,51,58,53,57,58,53,57,46,53,32,45,48,52,58,48,48,35>>
\* "#Feb 29, 2000 11:59:59.5 pm -0400#"
L2 == <<35,70,101,98,32,50,57,44,32,50,48,48,48,32,49,49,58,53,57,58,53,57,46,53,32,112,109,32,45,48,52,48,48,35>>
\* "#Tue Feb 29 23:59:59.5 2000#"   (a Tuesday)
L3 == <<35,84,117,101,32,70,101,98,32,50,57,32,50,51,58,53,57,58,53,57,46,53,32,50,48,48,48,35>>
\* "#Mon Feb 29 23:59:59.5 2000#"
L4 == <<35,77,111,110,32,70,101,98,32,50,57,32,50,51,58,53,57,58,53,57,46,53,32,50,48,48,48,35>>
\* "#2000-060 23:59#"
L5 == <<35,50,48,48,48,45,48,54,48,32,50,51,58,53,57,35>>
\* "#1900-02-29#"  "#2000-13-01#"  "#2000-01-01 24:00#"  "#2000 jan 1 00:00 pm#" "#2000-01-01 00:00 +24:00#"
L6 == <<35,49,57,48,48,45,48,50,45,50,57,35>>
L7 == <<35,50,48,48,48,45,49,51,45,48,49,35>>
L8 == <<35,50,48,48,48,45,48,49,45,48,49,32,50,52,58,48,48,35>>
L9 == <<35,50,48,48,48,32,106,97,110,32,49,32,48,48,58,48,48,32,112,109,35>>
L10 == <<35,50,48,48,48,45,48,49,45,48,49,32,48,48,58,48,48,32,43,50,52,58,48,48,35>>
\* "#10:30#" (relative to now)  "#jan 1, 1 bc#" (year 0)  "#2000 jan 1 12:00 am#"
L11 == <<35,49,48,58,51,48,35>>
L12 == <<35,106,97,110,32,49,44,32,49,32,98,99,35>>
L13 == <<35,50,48,48,48,32,106,97,110,32,49,32,49,50,58,48,48,32,97,109,35>>
\* ISO week dates known from outside: 2020-01-27 is the Monday of 2020-W05, 2021-01-03 the Sunday of 2020-W53,
\* 2018-12-31 the Monday of 2019-W01, 2016-01-03 lies in 2015-W53, 2000-01-01 in 1999-W52, 0001-01-01 in 0001-W01
IsoWeeks == /\ IsoYearOf(DaysFromCivil(2020, 1, 27)) = 2020 /\ IsoWeekOf(DaysFromCivil(2020, 1, 27)) = 5
            /\ IsoYearOf(DaysFromCivil(2021, 1, 3)) = 2020 /\ IsoWeekOf(DaysFromCivil(2021, 1, 3)) = 53
            /\ IsoYearOf(DaysFromCivil(2018, 12, 31)) = 2019 /\ IsoWeekOf(DaysFromCivil(2018, 12, 31)) = 1
            /\ IsoYearOf(DaysFromCivil(2016, 1, 3)) = 2015 /\ IsoWeekOf(DaysFromCivil(2016, 1, 3)) = 53
            /\ IsoYearOf(DaysFromCivil(2000, 1, 1)) = 1999 /\ IsoWeekOf(DaysFromCivil(2000, 1, 1)) = 52
            /\ IsoYearOf(0) = 1 /\ IsoWeekOf(0) = 1 /\ IsoWeekOf(6) = 1 /\ IsoWeekOf(7) = 2
            /\ \A y \in Years : IsoWeekOf(DaysFromCivil(y, 1, 4)) = 1 /\ IsoYearOf(DaysFromCivil(y, 1, 4)) = y
                                /\ IsoWeekOf(DaysFromCivil(y, 12, 28)) \in {52, 53} /\ IsoYearOf(DaysFromCivil(y, 12, 28)) = y

\* partial readings: the written fields, and which replies fit them
OnePartial(text) == LET s == S(text) IN ~s.silent /\ s.valid = {} /\ s.ninvalid = 0 /\ Cardinality(s.partial) = 1
PCof(text) == CHOOSE pc \in S(text).partial : TRUE
\* "#2020-W05 10:00#"  "#--03-15 10:30 +05:30#"  "#jan 5#"  "#10:30 -04:00#"  "#--02-30 10:00#"
P1 == <<35,50,48,50,48,45,87,48,53,32,49,48,58,48,48,35>>
P2 == <<35,45,45,48,51,45,49,53,32,49,48,58,51,48,32,43,48,53,58,51,48,35>>
P3 == <<35,106,97,110,32,53,35>>
P4 == <<35,49,48,58,51,48,32,45,48,52,58,48,48,35>>
P5 == <<35,45,45,48,50,45,51,48,32,49,48,58,48,48,35>>
\* "#2020-01-01 10:00 +0199#"  "#2016-12-31 23:59:60#"  "#2016-12-31 23:59:60.5 -04:00#"
P6 == <<35,50,48,50,48,45,48,49,45,48,49,32,49,48,58,48,48,32,43,48,49,57,57,35>>
P7 == <<35,50,48,49,54,45,49,50,45,51,49,32,50,51,58,53,57,58,54,48,35>>
P8 == <<35,50,48,49,54,45,49,50,45,51,49,32,50,51,58,53,57,58,54,48,46,53,32,45,48,52,58,48,48,35>>
UnixDays == ZFromInt(719162)
Partials ==
  /\ OnePartial(P1) /\ PCof(P1).wk = 5 /\ PCof(P1).hy /\ PCof(P1).y = 2020 /\ PCof(P1).secs = 36000 /\ ~PCof(P1).nodate
  /\ PCFits(PCof(P1), <<2020, 1, 27, 10, 0, 0, 0>>, 0) /\ PCFits(PCof(P1), <<2020, 2, 2, 10, 0, 0, 0>>, 0)
  /\ PCFits(PCof(P1), <<2020, 1, 27, 12, 0, 0, 0>>, 7200)            \* the same instant shown at +02:00
  /\ ~PCFits(PCof(P1), <<2020, 2, 3, 10, 0, 0, 0>>, 0) /\ ~PCFits(PCof(P1), <<2016, 8, 2, 10, 0, 0, 0>>, 0)
  /\ ~PCFits(PCof(P1), <<2021, 2, 1, 10, 0, 0, 0>>, 0) /\ ~PCFits(PCof(P1), <<2020, 1, 27, 10, 0, 1, 0>>, 0)
  /\ OnePartial(P2) /\ PCof(P2).mo = 3 /\ PCof(P2).dd = 15 /\ ~PCof(P2).hy /\ PCof(P2).ok = 1 /\ PCof(P2).off = 19800
  /\ PCFits(PCof(P2), <<2016, 3, 15, 10, 30, 0, 0>>, 19800) /\ PCFits(PCof(P2), <<1999, 3, 15, 5, 0, 0, 0>>, 0)
  /\ ~PCFits(PCof(P2), <<2016, 8, 2, 10, 30, 0, 0>>, 19800) /\ ~PCFits(PCof(P2), <<2016, 3, 15, 10, 30, 0, 0>>, 0)
  /\ OnePartial(P3) /\ PCof(P3).mo = 1 /\ PCof(P3).dd = 5 /\ PCof(P3).secs = 0
  /\ PCFits(PCof(P3), <<2026, 1, 5, 0, 0, 0, 0>>, 0) /\ ~PCFits(PCof(P3), <<2026, 1, 5, 0, 0, 0, 1>>, 0)
  /\ OnePartial(P4) /\ PCof(P4).nodate /\ PCof(P4).secs = 37800 /\ PCof(P4).off = -14400
  /\ ZEq(TodayInstant(PCof(P4), <<2016, 8, 2, 19, 33, 19>>), CivilInstant(2016, 8, 2, 10, 30, 0, 0, -14400))
  /\ ZEq(TodayInstant(PCof(P4), <<2016, 8, 3, 3, 59, 59>>), CivilInstant(2016, 8, 2, 10, 30, 0, 0, -14400))
  /\ ZEq(TodayInstant(PCof(P4), <<2016, 8, 3, 4, 0, 0>>), CivilInstant(2016, 8, 3, 10, 30, 0, 0, -14400))
  /\ ZEq(ClockInstant(<<1970, 1, 1, 0, 0, 1>>), ZAdd(ZMul(UnixDays, ZMul(ZFromInt(86400), ZBillion)), ZBillion))
  /\ OnePartial(P5) /\ \A y \in Years : ~PCFits(PCof(P5), <<y, 3, 1, 10, 0, 0, 0>>, 0)
  /\ Refused(P6)
  /\ (LET s7 == S(P7) IN ~s7.silent /\ s7.partial = {} /\ {r.inst : r \in s7.valid} = {CivilInstant(2017, 1, 1, 0, 0, 0, 0, 0)}
                         /\ \A r \in s7.valid : r.soft /\ r.leap /\ r.c = "fixed")
  /\ (LET s8 == S(P8) IN {r.inst : r \in s8.valid} = {CivilInstant(2017, 1, 1, 4, 0, 0, 500000000, 0)} /\ \A r \in s8.valid : r.soft)

Literals == /\ OneFixed(L1, CivilInstant(2000, 2, 29, 23, 59, 59, 500000000, -14400))
            /\ OneFixed(L2, CivilInstant(2000, 2, 29, 23, 59, 59, 500000000, -14400))
            /\ OneFixed(L3, CivilInstant(2000, 2, 29, 23, 59, 59, 500000000, 0))
            /\ (LET s4 == S(L4) IN ~s4.silent /\ s4.valid # {} /\ \A r \in s4.valid : r.soft)
            /\ OneFixed(L5, CivilInstant(2000, 2, 29, 23, 59, 0, 0, 0))
            /\ Refused(L6) /\ Refused(L7) /\ Refused(L9) /\ Refused(L10)
            /\ (LET s8 == S(L8) IN ~s8.silent /\ s8.valid # {} /\ \A r \in s8.valid : r.soft)
            /\ OnePartial(L11) /\ PCof(L11).nodate
            /\ OneFixed(L12, CivilInstant(0, 1, 1, 0, 0, 0, 0, 0))
            /\ OneFixed(L13, CivilInstant(2000, 1, 1, 0, 0, 0, 0, 0))

ASSUME PrintT(<<"DATETIME_SELFTEST", Successor, Period, LeapRule, Anchors, Instants, Literals>>)
ASSUME PrintT(<<"DATETIME_SELFTEST2", IsoWeeks, Partials>>)

VARIABLE x
Init == x = 0
Next == UNCHANGED x
=============================================================================
