----------------------------- MODULE MC_DateTime -----------------------------
(***************************************************************************)
(* Self-test of DateTime.tla, run by the C14 check at every start:         *)
(* calendar laws (successor days, inverse, 400-year period), anchor days   *)
(* known from outside (1970-01-01 is day 719162 and a Thursday, ...),      *)
(* instants against native arithmetic, and the readings of a few literals. *)
(***************************************************************************)
EXTENDS DateTime, TLC

Years == {-400, -399, -100, -4, -1, 0, 1, 4, 100, 400, 1582, 1600, 1900, 1969, 1970, 2000, 2016, 2100, 9999}

\* every day of the chosen years: the next calendar day is the next day number; CivilFromDays inverts
NextCivil(y, m, d) == IF d < DaysInMonth(y, m) THEN <<y, m, d + 1>>
                      ELSE IF m < 12 THEN <<y, m + 1, 1>> ELSE <<y + 1, 1, 1>>
Successor == \A y \in Years : \A m \in 1..12 : \A d \in 1..DaysInMonth(y, m) :
               LET n == NextCivil(y, m, d) IN
               /\ DaysFromCivil(n[1], n[2], n[3]) = DaysFromCivil(y, m, d) + 1
               /\ CivilFromDays(DaysFromCivil(y, m, d)) = <<y, m, d>>
               /\ DaysFromOrdinal(y, DaysFromCivil(y, m, d) - DaysBeforeYear(y) + 1) = DaysFromCivil(y, m, d)
Period == \A y \in -800..10000 : (y % 97 = 0) => DaysBeforeYear(y + 400) - DaysBeforeYear(y) = 146097
LeapRule == /\ IsLeap(2000) /\ IsLeap(2016) /\ IsLeap(4) /\ IsLeap(400) /\ IsLeap(0) /\ IsLeap(-4) /\ IsLeap(-400)
            /\ ~IsLeap(1900) /\ ~IsLeap(2100) /\ ~IsLeap(100) /\ ~IsLeap(1582) /\ ~IsLeap(1) /\ ~IsLeap(9999) /\ ~IsLeap(-100)
            /\ \A y \in Years : DaysInYear(y) = DaysBeforeYear(y + 1) - DaysBeforeYear(y)
Anchors == /\ DaysFromCivil(1, 1, 1) = 0 /\ WeekdayOf(0) = 1
           /\ DaysFromCivil(1970, 1, 1) = 719162 /\ WeekdayOf(719162) = 4
           /\ DaysFromCivil(2000, 3, 1) = 730179
           /\ WeekdayOf(DaysFromCivil(2000, 1, 1)) = 6
           /\ DaysFromCivil(1582, 10, 15) = 577735 /\ WeekdayOf(577735) = 5
           /\ DaysFromCivil(9999, 12, 31) = 3652058
           /\ DaysFromCivil(0, 12, 31) = -1 /\ WeekdayOf(-1) = 7
           /\ DaysFromCivil(0, 1, 1) = -366

\* instants against native integers where they fit (microsecond scale on small day counts)
Instants == /\ InstantOf(0, 0, 0) = ZZero
            /\ InstantOf(0, 2, 5) = ZFromInt(2000000005)
            /\ InstantOf(-1, 86399, 999999999) = ZFromInt(-1)
            /\ ZEq(InstantOf(1, -3600, 0), ZMul(ZFromInt(82800), ZBillion))
            /\ ZEq(CivilInstant(1, 1, 1, 0, 0, 0, 0, 50400), ZMul(ZFromInt(-50400), ZBillion))
            /\ QEq(Diff(CivilInstant(2000, 3, 1, 0, 0, 0, 0, 0), CivilInstant(2000, 2, 28, 0, 0, 0, 0, 0)), QFromInt(172800))
            /\ QEq(Diff(CivilInstant(1900, 3, 1, 0, 0, 0, 0, 0), CivilInstant(1900, 2, 28, 0, 0, 0, 0, 0)), QFromInt(86400))
            /\ WholeNanos(QFrac(1, 1000000000)) /\ ~WholeNanos(QFrac(1, 2000000000))
            /\ ZEq(AddDur(ZZero, QFrac(-5, 10000)), ZFromInt(-500000))
            /\ AddDurDefined(ZZero, QFrac(5, 10000)) /\ ~AddDurDefined(ZZero, QAdd(MaxDurSecs, QOne))
            /\ OffsetValid(86399) /\ OffsetValid(-86399) /\ ~OffsetValid(86400) /\ ~OffsetValid(-86400)

Toks(text) == Lex(text)[1].toks
S(text) == LitSummary(Toks(text))
OneFixed(text, inst) == LET s == S(text) IN ~s.silent /\ s.ninvalid = 0 /\ {r.inst : r \in s.valid} = {inst}
                                             /\ \A r \in s.valid : r.c = "fixed" /\ ~r.soft /\ r.win = 0
Refused(text) == LET s == S(text) IN ~s.silent /\ s.valid = {}
\* "#2000-02-29T23:59:59.5 -04:00#"
L1 == <<35,50,48,48,48,45,48,50,45,50,57,84,50,51,58,53,57,58,53,57,46,53,32,45,48,52,58,48,48,35>>
\* "#Feb 29, 2000 11:59:59.5 pm -0400#"
L2 == <<35,70,101,98,32,50,57,44,32,50,48,48,48,32,49,49,58,53,57,58,53,57,46,53,32,112,109,32,45,48,52,48,48,35>>
\* "#Tue Feb 29 23:59:59.5 2000#"   (a Tuesday)
L3 == <<35,84,117,101,32,70,101,98,32,50,57,32,50,51,58,53,57,58,53,57,46,53,32,50,48,48,48,35>>
\* "#Mon Feb 29 23:59:59.5 2000#"
L4 == <<35,77,111,110,32,70,101,98,32,50,57,32,50,51,58,53,57,58,53,57,46,53,32,50,48,48,48,35>>
\* "#2000-060 23:59#"
L5 == <<35,50,48,48,48,45,48,54,48,32,50,51,58,53,57,35>>
\* "#1900-02-29#"  "#2000-13-01#"  "#2000-01-01 24:00#"  "#2000 jan 1 00:00 pm#" "#2000-01-01 00:00 +24:00#"
L6 == <<35,49,57,48,48,45,48,50,45,50,57,35>>
L7 == <<35,50,48,48,48,45,49,51,45,48,49,35>>
L8 == <<35,50,48,48,48,45,48,49,45,48,49,32,50,52,58,48,48,35>>
L9 == <<35,50,48,48,48,32,106,97,110,32,49,32,48,48,58,48,48,32,112,109,35>>
L10 == <<35,50,48,48,48,45,48,49,45,48,49,32,48,48,58,48,48,32,43,50,52,58,48,48,35>>
\* "#10:30#" (relative to now)  "#jan 1, 1 bc#" (year 0)  "#2000 jan 1 12:00 am#"
L11 == <<35,49,48,58,51,48,35>>
L12 == <<35,106,97,110,32,49,44,32,49,32,98,99,35>>
L13 == <<35,50,48,48,48,32,106,97,110,32,49,32,49,50,58,48,48,32,97,109,35>>
Literals == /\ OneFixed(L1, CivilInstant(2000, 2, 29, 23, 59, 59, 500000000, -14400))
            /\ OneFixed(L2, CivilInstant(2000, 2, 29, 23, 59, 59, 500000000, -14400))
            /\ OneFixed(L3, CivilInstant(2000, 2, 29, 23, 59, 59, 500000000, 0))
            /\ (LET s4 == S(L4) IN ~s4.silent /\ s4.valid # {} /\ \A r \in s4.valid : r.soft)
            /\ OneFixed(L5, CivilInstant(2000, 2, 29, 23, 59, 0, 0, 0))
            /\ Refused(L6) /\ Refused(L7) /\ Refused(L9) /\ Refused(L10)
            /\ (LET s8 == S(L8) IN ~s8.silent /\ s8.valid # {} /\ \A r \in s8.valid : r.soft)
            /\ S(L11).silent
            /\ OneFixed(L12, CivilInstant(0, 1, 1, 0, 0, 0, 0, 0))
            /\ OneFixed(L13, CivilInstant(2000, 1, 1, 0, 0, 0, 0, 0))

ASSUME PrintT(<<"DATETIME_SELFTEST", Successor, Period, LeapRule, Anchors, Instants, Literals>>)

VARIABLE x
Init == x = 0
Next == UNCHANGED x
=============================================================================
