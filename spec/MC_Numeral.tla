------------------------------ MODULE MC_Numeral ------------------------------
(* Self-check of Numeral.tla on numerals whose value is known by hand, and of its digit
   conversion against BigNum's generic operators.  Run at the start of C05 / C06. *)
EXTENDS Numeral, TLC

T(str) == str        \* numerals are written as code point tuples below

V(chars, b) == Denote(chars, b)
Is(chars, b, n, d) == \E x \in V(chars, b) : QEq(x, QFrac(n, d))
Only(chars, b, n, d) == V(chars, b) # {} /\ \A x \in V(chars, b) : QEq(x, QFrac(n, d))

Cases ==
  /\ Only(<<48>>, 10, 0, 1)                                               \* 0
  /\ Only(<<45, 49, 50, 51>>, 10, -123, 1)                                 \* -123
  /\ Only(<<48, 46, 53>>, 10, 1, 2)                                        \* 0.5
  /\ Only(<<48, 46, 91, 51, 93, 46, 46, 46>>, 10, 1, 3)                     \* 0.[3]...
  /\ Only(<<48, 46, 56, 91, 51, 93, 46, 46, 46>>, 10, 5, 6)                 \* 0.8[3]...
  /\ Only(<<48, 46, 91, 49, 52, 50, 56, 53, 55, 93, 46, 46, 46>>, 10, 1, 7) \* 0.[142857]...
  /\ Only(<<45, 51, 51, 51, 46, 91, 51, 93, 46, 46, 46>>, 10, -1000, 3)     \* -333.[3]...
  /\ Only(<<51, 46, 91, 51, 93, 46, 46, 46, 101, 50>>, 10, 1000, 3)         \* 3.[3]...e2
  /\ Only(<<49, 46, 48, 101, 51>>, 10, 1000, 1)                            \* 1.0e3
  /\ Only(<<49, 46, 53, 101, 45, 50>>, 10, 15, 1000)                       \* 1.5e-2
  /\ Only(<<48, 46, 91, 48, 49, 93, 46, 46, 46>>, 2, 1, 3)                  \* 0.[01]... base 2
  /\ Only(<<45, 49, 52, 100, 46, 91, 53, 93, 46, 46, 46>>, 16, -1000, 3)    \* -14d.[5]... base 16
  /\ Only(<<48, 46, 99>>, 36, 1, 3)                                        \* 0.c base 36
  /\ Only(<<49, 46, 49, 49, 101, 51>>, 2, 14, 1)                           \* 1.11e3 base 2
  /\ Only(<<49, 47, 51>>, 10, 1, 3)                                        \* 1/3
  /\ Only(<<45, 49, 48, 48, 48, 47, 51>>, 10, -1000, 3)                    \* -1000/3
  \* fractions are numerals of the base: no decimal reading in another base, no exponent marker
  /\ Only(<<49, 54, 47, 51>>, 16, 22, 3)                                   \* 16/3 base 16 = 22/3
  /\ Only(<<102, 102, 47, 55>>, 16, 255, 7)                                \* ff/7 base 16
  /\ Only(<<49, 47, 49, 48, 48, 48>>, 16, 1, 4096)                         \* 1/1000 base 16 is not 1/1000
  /\ Only(<<49, 47, 51, 101, 56>>, 16, 1, 1000)                            \* 1/3e8 base 16: e is a digit
  /\ Only(<<45, 49, 47, 49, 49>>, 2, -1, 3)                                \* -1/11 base 2
  /\ ~Supported(<<50, 53, 53, 47, 57>>, 8) /\ WrongBase(<<50, 53, 53, 47, 57>>, 8)     \* 255/9 in base 8
  /\ ~WrongBase(<<50, 53, 53, 47, 55>>, 8) /\ ~WrongBase(<<78, 97, 78>>, 10) /\ WrongBase(<<49, 50, 97>>, 10)
  /\ ~ExactOK(QFrac(1, 1000), <<49, 47, 49, 48, 48, 48>>, 16) /\ ExactOK(QFrac(1, 1000), <<49, 47, 51, 101, 56>>, 16)
  \* the letter e in bases >= 15: both readings
  /\ Is(<<49, 101, 50>>, 16, 482, 1) /\ Is(<<49, 101, 50>>, 16, 256, 1)     \* 1e2
  /\ Cardinality(V(<<49, 101, 50>>, 16)) = 2
  /\ Only(<<101>>, 15, 14, 1)                                              \* e
  /\ Is(<<101, 46, 48, 101, 48>>, 15, 14, 1) /\ Is(<<101, 46, 48, 101, 48>>, 15, 14 * 225 + 14, 225)   \* e.0e0: e.0 x 15^0 or the digits e.0e0
  /\ Only(<<49, 101, 50>>, 10, 100, 1)
  \* period
  /\ PeriodOK(<<48, 46, 91, 48, 53, 56, 56, 50, 51, 53, 50, 57, 52, 49, 49, 55, 54, 52, 55, 44, 32, 112, 101, 114, 105, 111, 100, 32, 49, 54, 93, 46, 46, 46>>, 10)
  /\ Only(<<48, 46, 91, 48, 53, 56, 56, 50, 51, 53, 50, 57, 52, 49, 49, 55, 54, 52, 55, 44, 32, 112, 101, 114, 105, 111, 100, 32, 49, 54, 93, 46, 46, 46>>, 10, 1, 17)
  /\ ~PeriodOK(<<48, 46, 91, 48, 53, 56, 56, 50, 51, 53, 50, 57, 52, 49, 49, 55, 54, 52, 55, 44, 32, 112, 101, 114, 105, 111, 100, 32, 49, 53, 93, 46, 46, 46>>, 10)
  \* outside the grammar
  /\ ~Supported(<<78, 97, 78>>, 10)                 \* NaN
  /\ ~Supported(<<49, 46>>, 10)                     \* 1.
  /\ ~Supported(<<49, 46, 91, 51, 93>>, 10)         \* 1.[3]
  /\ ~Supported(<<91, 51, 93, 46, 46, 46>>, 10)     \* [3]...
  /\ ~Supported(<<49, 50, 97>>, 10)                 \* 12a in base 10
  /\ ~Supported(<<>>, 10)
  /\ ~Supported(<<45>>, 10)
  /\ ~Supported(<<49, 47, 48>>, 10)                 \* 1/0
  \* rules
  /\ ApproxOK(QFrac(1, 17), <<48, 46, 48, 53, 56, 56, 50, 51, 53, 50>>, 10)          \* 0.05882352
  /\ ~ApproxOK(QFrac(1, 17), <<48, 46, 48, 53, 56, 56, 50, 51, 53, 51>>, 10)         \* rounded up
  /\ ~ApproxOK(QFrac(1, 17), <<48, 46, 48, 53, 56, 56, 50, 51, 53, 49>>, 10)         \* a unit too low
  /\ ~ApproxOK(QFrac(-1, 17), <<48, 46, 48, 53, 56, 56, 50, 51, 53, 50>>, 10)        \* wrong sign
  /\ ApproxOK(QFrac(-1, 17), <<45, 48, 46, 48, 53, 56, 56, 50, 51, 53, 50>>, 10)
  /\ ApproxOK(QFrac(1, 17), <<53, 46, 56, 56, 50, 51, 53, 50, 101, 45, 50>>, 10)     \* 5.882352e-2
  /\ ~ApproxOK(QFrac(1, 3), <<48, 46, 91, 51, 93, 46, 46, 46>>, 10)                  \* a block is not a truncation
  /\ ExactOK(QFrac(1, 3), <<48, 46, 91, 51, 93, 46, 46, 46>>, 10)
  /\ ~ExactOK(QFrac(1, 3), <<48, 46, 51, 91, 51, 52, 93, 46, 46, 46>>, 10)
  /\ \A r \in Readings(<<49, 46, 53, 101, 45, 50>>, 10) : QEq(r.ulp, QFrac(1, 1000))
  \* exponent readings are weighed before they are computed: digit salad ending in e1234567 is refused at once,
  \* true exponents of every size pass
  /\ ~ExactOK(QFrac(5, 1), <<109, 115, 121, 46, 55, 101, 49, 50, 51, 52, 53, 54, 55>>, 36)    \* msy.7e1234567
  /\ ~ApproxOK(QFrac(5, 1), <<109, 115, 121, 46, 55, 101, 49, 50, 51, 52, 53, 54, 55>>, 36)
  /\ ~ApproxOK(QFrac(5, 1), <<51, 46, 55, 101, 45, 57, 57, 57, 57, 57, 57, 57>>, 16)          \* 3.7e-9999999
  /\ Plausible(QFrac(1000, 1), <<49, 46, 48, 101, 51>>, 4, 10) /\ ~Plausible(QFrac(1000, 1), <<49, 46, 48, 101, 57>>, 4, 10)
  /\ Plausible(QFrac(1, 1000), <<49, 46, 48, 101, 45, 51>>, 4, 10) /\ ~Plausible(QFrac(1, 1000), <<49, 46, 48, 101, 45, 57>>, 4, 10)
  /\ \A b \in 2..36 : \A j \in {-40, -7, -1, 0, 1, 2, 9, 40} :                                \* 1.0ej = base^j, (base-1).(base-1)ej just below base^(j+1)
        LET bj == IF j >= 0 THEN Q(Z(FALSE, BasePow(b, j)), <<1>>) ELSE Q(ZOne, BasePow(b, -j))
            top == IF b <= 10 THEN 47 + b ELSE 86 + b
            ex == IF j >= 0 THEN <<48 + (j \div 10), 48 + (j % 10)>> ELSE <<45, 48 + ((-j) \div 10), 48 + ((-j) % 10)>>
        IN /\ ExactOK(bj, <<49, 46, 48, 101>> \o ex, b)
           /\ Plausible(bj, <<top, 46, top, 101>> \o ex, 4, b)
           /\ ApproxOK(QMul(bj, QFrac(b * b - 1, b)), <<top, 46, top, 101>> \o ex, b)
  /\ \A r \in Readings(<<49, 50, 101, 51>>, 10) : QEq(r.ulp, QFrac(1000, 1))

\* the digit conversion agrees with BigNum's generic one in every base
Digs == <<3, 1, 0, 0, 1, 1, 0, 1, 1, 1, 0, 0, 1, 0, 1, 1, 1, 1, 0, 1, 0, 0, 0, 1, 1, 0, 1, 0, 1, 1, 0, 1, 1, 0, 0, 0, 1>>
ConvOK ==
  \A b \in 2..36 :
    LET ds == [i \in DOMAIN Digs |-> (Digs[i] * (i + 7)) % b] IN
    /\ NDigits(ds, b) = NFromDigitsC(ds, b, 1, <<>>)
    /\ NDigits(SubSeq(ds, 1, 1), b) = NFromDigitsC(SubSeq(ds, 1, 1), b, 1, <<>>)
    /\ NDigits(<<>>, b) = <<>>
    /\ \A k \in {0, 1, 2, 3, 11, 12, 13, 40} : BasePow(b, k) = NPow(<<b>>, k)

ASSUME PrintT(<<"NUMERAL_SELFTEST", Cases, ConvOK>>)
VARIABLE x
Init == x = 0
Next == FALSE /\ x' = x
=============================================================================
